import HttpcoreModel.H1Obs
/-!
# C17 — Upgrade / CONNECT hand-over loses no bytes
-/
namespace Httpcore.C17
open Httpcore Httpcore.H1

/-- feeding more segments to a switched reader only accumulates them in the buffer -/
theorem feedAll_switched (ri : ReqInfo) (evs : List Ev) (buf : Bytes) (segs : List Bytes) :
    (reader ri).feedAll (evs, .switched, buf) segs = (evs, .switched, buf ++ segs.flatten) := by
  induction segs generalizing buf with
  | nil => simp [Extractor.feedAll]
  | cons seg rest ih =>
    have h1 : (reader ri).extract .switched (buf ++ seg) = none := rfl
    have : (reader ri).feed (evs, .switched, buf) seg = (evs, .switched, buf ++ seg) := by
      simp [Extractor.feed, (reader ri).drain_none _ _ h1]
    simp only [Extractor.feedAll, List.foldl_cons, this] at ih ⊢
    rw [ih]; simp

theorem feedUntil_feedAll (ri : ReqInfo) (st : List Ev × St × Bytes) (segs : List Bytes) :
    (reader ri).feedAll st segs =
      (reader ri).feedAll (feedUntilSwitched ri st segs).1 (feedUntilSwitched ri st segs).2 := by
  induction segs generalizing st with
  | nil => simp [feedUntilSwitched, Extractor.feedAll]
  | cons seg rest ih =>
    simp only [feedUntilSwitched]
    split
    · simp [Extractor.feedAll]
    · rw [← ih]; simp [Extractor.feedAll]

/-- **C17.leading_exact** — for every response head `raw` that switches protocols (101 to an
upgrade request, 2xx to CONNECT), every amount of post-head data `d` and every segmentation of
`raw ++ d` into reads (head and data in the same read included): the leading data handed to the
upgrade stream followed by the segments still unread in the network is exactly `d` — nothing lost,
duplicated or reordered. -/
theorem leading_exact (ri : ReqInfo) (raw d : Bytes) (ev : Ev)
    (hx : (reader ri).extract .head raw = some (ev, .switched, []))
    (segs : List Bytes) (hs : segs.flatten = raw ++ d) :
    let r := feedUntilSwitched ri ([], .head, []) segs
    r.1.2.1 = .switched ∧ r.1.2.2 ++ r.2.flatten = d ∧ r.1.1 = [ev] := by
  intro r
  have h0 : (reader ri).extract .head [] = none := rfl
  have hall := (reader ri).segmentation_independent [] .head [] segs h0
  have hx' := (reader ri).stable .head raw ev .switched [] d hx
  simp only [List.nil_append] at hall hx'
  have hsw : (reader ri).extract .switched d = none := rfl
  rw [hs, (reader ri).drain_some _ _ _ _ _ hx', (reader ri).drain_none _ _ hsw] at hall
  simp only at hall
  have hsplit := feedUntil_feedAll ri ([], .head, []) segs
  rw [hall] at hsplit
  -- the loop either stopped in `switched`, or ran out of segments in another state
  have key : ∀ (st : List Ev × St × Bytes) (ss : List Bytes),
      (feedUntilSwitched ri st ss).1.2.1 = .switched ∨
      ((feedUntilSwitched ri st ss).2 = [] ) := by
    intro st ss
    induction ss generalizing st with
    | nil => right; rfl
    | cons seg rest ih =>
      simp only [feedUntilSwitched]
      split
      · left; assumption
      · exact ih _
  rcases key ([], .head, []) segs with hsw' | hnil
  · have : r.1 = (r.1.1, .switched, r.1.2.2) := by
      rw [← hsw']
    rw [show feedUntilSwitched ri ([], St.head, []) segs = r from rfl, this,
      feedAll_switched] at hsplit
    simp only [Prod.mk.injEq] at hsplit
    exact ⟨hsw', hsplit.2.2.symm, hsplit.1.symm⟩
  · rw [show feedUntilSwitched ri ([], St.head, []) segs = r from rfl, hnil] at hsplit
    simp only [Extractor.feedAll, List.foldl_nil] at hsplit
    rw [← hsplit]
    have hnil' : r.2 = [] := hnil
    simp [hnil']

/-- **C17.read_slices (one read)** — a read of the upgrade stream while leading data remains
returns at most `max_bytes` bytes, a prefix of the leading data, consumes exactly those, and makes
progress whenever `max_bytes ≥ 1`; once the leading data is used up reads are passed through. -/
theorem read_slice (leading : Bytes) (m : Nat) :
    (leading = [] → upgradeRead leading m = none) ∧
    (leading ≠ [] → ∃ out rest, upgradeRead leading m = some (out, rest) ∧ out.length ≤ m ∧
      out ++ rest = leading ∧ (1 ≤ m → out ≠ [])) := by
  constructor
  · intro h; simp [upgradeRead, h]
  · intro h
    refine ⟨leading.take m, leading.drop m, by simp [upgradeRead, h], by simp [List.length_take]; omega,
      List.take_append_drop m leading, ?_⟩
    intro hm
    cases leading with
    | nil => exact absurd rfl h
    | cons a t =>
      cases m with
      | zero => omega
      | succ k => simp

/-- **C17.read_slices (any sequence of max_bytes)** — the results of successive reads, followed by
what is still held, concatenate to the leading data, for every sequence of `max_bytes` values. -/
theorem read_slices (leading : Bytes) (ms : List Nat) :
    (upgradeReads leading ms).1.flatten ++ (upgradeReads leading ms).2 = leading ∧
    ∀ out ∈ (upgradeReads leading ms).1, ∃ m ∈ ms, out.length ≤ m := by
  induction ms generalizing leading with
  | nil => simp [upgradeReads]
  | cons m rest ih =>
    simp only [upgradeReads]
    cases hr : upgradeRead leading m with
    | none => simp
    | some p =>
      obtain ⟨out, l'⟩ := p
      have hne : leading ≠ [] := by
        intro hc; simp [upgradeRead, hc] at hr
      obtain ⟨out2, rest2, h1, h2, h3, _⟩ := (read_slice leading m).2 hne
      rw [hr] at h1; cases h1
      obtain ⟨ih1, ih2⟩ := ih l'
      simp only [List.flatten_cons, List.append_assoc]
      refine ⟨by rw [ih1]; exact h3, ?_⟩
      intro o ho
      simp only [List.mem_cons] at ho
      rcases ho with rfl | ho
      · exact ⟨m, by simp, h2⟩
      · obtain ⟨m', hm', hl⟩ := ih2 o ho
        exact ⟨m', by simp [hm'], hl⟩

/-- with `max_bytes ≥ 1` throughout and enough reads, the leading data is delivered completely -/
theorem read_slices_exhaust (leading : Bytes) (ms : List Nat) (hpos : ∀ m ∈ ms, 1 ≤ m)
    (hlen : leading.length ≤ ms.length) : (upgradeReads leading ms).2 = [] := by
  induction ms generalizing leading with
  | nil => simp at hlen; simp [upgradeReads, hlen]
  | cons m rest ih =>
    simp only [upgradeReads]
    cases hr : upgradeRead leading m with
    | none =>
      simp only
      by_cases hl : leading = []
      · exact hl
      · simp [upgradeRead, hl] at hr
    | some p =>
      obtain ⟨out, l'⟩ := p
      simp only
      have hne : leading ≠ [] := by
        intro hc; simp [upgradeRead, hc] at hr
      obtain ⟨out2, rest2, h1, _, h3, h4⟩ := (read_slice leading m).2 hne
      rw [hr] at h1; cases h1
      have hm := hpos m (by simp)
      have : out ≠ [] := h4 hm
      have hl : l'.length < leading.length := by
        rw [← h3]; simp
        cases out with
        | nil => exact absurd rfl this
        | cons a t => simp
      apply ih l' (fun m' hm' => hpos m' (by simp [hm']))
      simp at hlen; omega

/-! non-vacuity: a 101 head and a CONNECT 200 head switch protocols -/
example : (reader ⟨false, false, true⟩).extract .head (ascii "HTTP/1.1 101 Switching Protocols\r\nUpgrade: websocket\r\n\r\n")
    = some (.info ⟨ascii "1.1", 101, ascii "Switching Protocols", [(ascii "Upgrade", ascii "websocket")]⟩, .switched, []) := by
  decide
example : (reader ⟨false, true, false⟩).extract .head (ascii "HTTP/1.1 200 OK\r\n\r\n")
    = some (.response ⟨ascii "1.1", 200, ascii "OK", []⟩, .switched, []) := by decide



/-! ## through the leading data and on into the live connection -/

theorem netRead_exact (segs : List Bytes) (m : Nat) :
    (netRead segs m).1 ++ (netRead segs m).2.flatten = segs.flatten ∧ (netRead segs m).1.length ≤ m := by
  cases segs with
  | nil => simp [netRead]
  | cons s rest =>
    simp only [netRead]
    split
    · exact ⟨by simp [← List.append_assoc], List.length_take_le m s⟩
    · exact ⟨by simp, by simp only; omega⟩

/-- **C17.handover_read** — one read of the handed-over stream returns at most `max_bytes` bytes, and what it
returns, followed by the leading data and the network data that remain, is what was there before the
read: nothing lost, duplicated or reordered. While leading data remains the network is not read at all
(so live data can never overtake it), and once it is used up the leading data stays empty. -/
theorem handover_read (l : Bytes) (segs : List Bytes) (m : Nat) :
    let r := handoverRead l segs m
    r.1 ++ r.2.1 ++ r.2.2.flatten = l ++ segs.flatten ∧ r.1.length ≤ m ∧
    (l ≠ [] → r.2.2 = segs ∧ r.1 ++ r.2.1 = l) ∧ (l = [] → r.2.1 = []) := by
  intro r
  by_cases hl : l = []
  · have hr : r = ((netRead segs m).1, l, (netRead segs m).2) := by
      simp [r, handoverRead, upgradeRead, hl]
    have hn := netRead_exact segs m
    rw [hr]; simp [hl, hn.1, hn.2]
  · obtain ⟨out, rest, h1, h2, h3, _⟩ := (read_slice l m).2 hl
    have hr : r = (out, rest, segs) := by simp [r, handoverRead, h1]
    rw [hr]; simp [h2, ← h3]

/-- **C17.handover_reads (any sequence of max_bytes, any network segmentation)** — the results of
successive reads, followed by what is still held and what is still in the network, concatenate to
leading data ++ live data. -/
theorem handover_reads (l : Bytes) (segs : List Bytes) (ms : List Nat) :
    let h := handoverReads l segs ms
    h.1.flatten ++ h.2.1 ++ h.2.2.flatten = l ++ segs.flatten ∧ h.1.length = ms.length ∧
    ∀ i (hi : i < h.1.length) (hm : i < ms.length), (h.1[i]).length ≤ ms[i] := by
  induction ms generalizing l segs with
  | nil => simp [handoverReads]
  | cons m rest ih =>
    obtain ⟨h1, h2, _, _⟩ := handover_read l segs m
    obtain ⟨i1, i2, i3⟩ := ih (handoverRead l segs m).2.1 (handoverRead l segs m).2.2
    simp only [handoverReads, List.flatten_cons, List.append_assoc, List.length_cons] at *
    refine ⟨by rw [i1]; exact h1, by omega, ?_⟩
    intro i hi hm
    cases i with
    | zero => simpa using h2
    | succ k => simpa using i3 k (by omega) (by omega)

/-- **C17.handover_exact (end to end)** — for every switching response head `raw`, every amount of
post-head data `d`, every segmentation of `raw ++ d` into network reads and every sequence of
`max_bytes` values used by the caller: what the caller's reads return, followed by what the stream
and the network still hold, is exactly `d`. In particular the concatenation of the reads is a prefix
of `d` at every moment. -/
theorem handover_exact (ri : ReqInfo) (raw d : Bytes) (ev : Ev)
    (hx : (reader ri).extract .head raw = some (ev, .switched, []))
    (segs : List Bytes) (hs : segs.flatten = raw ++ d) (ms : List Nat) :
    let r := feedUntilSwitched ri ([], .head, []) segs
    let h := handoverReads r.1.2.2 r.2 ms
    h.1.flatten ++ h.2.1 ++ h.2.2.flatten = d ∧ h.1.flatten <+: d := by
  intro r h
  obtain ⟨_, hd, _⟩ := leading_exact ri raw d ev hx segs hs
  obtain ⟨hh, _, _⟩ := handover_reads r.1.2.2 r.2 ms
  have : h.1.flatten ++ h.2.1 ++ h.2.2.flatten = d := by rw [← hd]; exact hh
  exact ⟨this, ⟨h.2.1 ++ h.2.2.flatten, by rw [← this]; simp⟩⟩

/-- with `max_bytes ≥ 1` throughout and as many reads as there are bytes, everything is delivered -/
theorem handover_reads_exhaust (l : Bytes) (segs : List Bytes) (ms : List Nat) (hpos : ∀ m ∈ ms, 1 ≤ m)
    (hne : ∀ s ∈ segs, s ≠ []) (hlen : l.length + segs.flatten.length ≤ ms.length) :
    (handoverReads l segs ms).2.1 = [] ∧ (handoverReads l segs ms).2.2 = [] := by
  induction ms generalizing l segs with
  | nil =>
    have h0 : l.length + segs.flatten.length ≤ 0 := by simpa only [List.length_nil] using hlen
    have hl : l = [] := List.eq_nil_of_length_eq_zero (by omega)
    cases segs with
    | nil => simp [handoverReads, hl]
    | cons s rest =>
      have := hne s (by simp)
      have : 0 < s.length := List.length_pos_iff.mpr this
      simp only [List.flatten_cons, List.length_append] at h0; omega
  | cons m rest ih =>
    simp only [handoverReads]
    have hm := hpos m (by simp)
    by_cases hl : l = []
    · subst hl
      cases segs with
      | nil =>
        have : handoverRead [] [] m = ([], [], []) := by simp [handoverRead, upgradeRead, netRead]
        rw [this]
        exact ih [] [] (fun m' hm' => hpos m' (by simp [hm'])) (by simp) (by simp)
      | cons s tl =>
        have hs := hne s (by simp)
        have hsl : 0 < s.length := List.length_pos_iff.mpr hs
        by_cases hlt : m < s.length
        · have : handoverRead [] (s :: tl) m = (s.take m, [], s.drop m :: tl) := by
            simp [handoverRead, upgradeRead, netRead, hlt]
          rw [this]
          apply ih
          · exact fun m' hm' => hpos m' (by simp [hm'])
          · intro x hx
            simp only [List.mem_cons] at hx
            rcases hx with rfl | hx
            · intro hc; simp at hc; omega
            · exact hne x (by simp [hx])
          · simp at hlen ⊢; omega
        · have : handoverRead [] (s :: tl) m = (s, [], tl) := by
            simp [handoverRead, upgradeRead, netRead, hlt]
          rw [this]
          apply ih
          · exact fun m' hm' => hpos m' (by simp [hm'])
          · exact fun x hx => hne x (by simp [hx])
          · simp at hlen ⊢; omega
    · have : handoverRead l segs m = (l.take m, l.drop m, segs) := by
        simp [handoverRead, upgradeRead, hl]
      rw [this]
      apply ih
      · exact fun m' hm' => hpos m' (by simp [hm'])
      · exact hne
      · have : 0 < l.length := List.length_pos_iff.mpr hl
        simp at hlen ⊢; omega

/-! non-vacuity: leading data "ab", live data "cde" | "f", reads of 1, 5, 2, 9 bytes -/
example : handoverReads [97, 98] [[99, 100, 101], [102]] [1, 5, 2, 9]
    = ([[97], [98], [99, 100], [101]], [], [[102]]) := by decide

end Httpcore.C17
