import HttpcoreModel.Props.C13Multi
import HttpcoreModel.H2
/-!
# C13 — HTTP/2 flow control is obeyed and never starves a transfer
-/
namespace Httpcore.C13
open Httpcore Httpcore.H2

/-! ## sending -/

/-- **C13.upload_in_order** — for every window / frame-size state, every schedule of updates and every body chunk:
the DATA payloads, concatenated, followed by what is still unsent, are exactly the chunk - nothing lost, duplicated
or reordered. -/
theorem upload_in_order (w : SendState) (sched : List (List Update)) (data : List Nat) :
    ((sendData w sched data).emitted.map (·.1)).flatten ++ (sendData w sched data).left = data := by
  fun_induction sendData w sched data with
  | case1 => simp
  | case2 => simp
  | case3 _ _ _ _ _ _ ih => simpa using ih
  | case4 w sched d ds h n r ih =>
    simp only [List.map_cons, List.flatten_cons, List.append_assoc]
    rw [ih]
    exact List.take_append_drop n (d :: ds)

/-- **C13.send_within_window** — every DATA payload is non-empty and no longer than the stream window, the connection
window and the maximum frame size in force when it is sent. -/
theorem send_within_window (w : SendState) (sched : List (List Update)) (data : List Nat) :
    ∀ e ∈ (sendData w sched data).emitted,
      0 < e.1.length ∧ (e.1.length : Int) ≤ e.2.streamWin ∧ (e.1.length : Int) ≤ e.2.connWin ∧ e.1.length ≤ e.2.maxFrame := by
  fun_induction sendData w sched data with
  | case1 => simp
  | case2 => simp
  | case3 _ _ _ _ _ _ ih => exact ih
  | case4 w sched d ds h n r ih =>
    intro e he
    simp only [List.mem_cons] at he
    rcases he with rfl | he
    · have hpos : 0 < flow w := flowWaits_false_pos (by simpa using h)
      have hn : n = min (d :: ds).length (flow w).toNat := rfl
      simp only [List.length_take, List.length_cons] at hn ⊢
      unfold flow at hpos hn
      refine ⟨by omega, by omega, by omega, by omega⟩
    · exact ih e he

/-- the windows are charged exactly what was sent -/
theorem windows_charged (w : SendState) (data : List Nat) (hpos : Gen.flowWaits (flow w) = false) (hne : data ≠ []) :
    ∃ c rest, (sendData w [] data).emitted = (c, w) :: rest ∧ c = data.take (min data.length (flow w).toNat) := by
  cases data with
  | nil => exact absurd rfl hne
  | cons d ds =>
    rw [sendData]
    simp [hpos]

/-- **C13.resumes_when_window_reopens** — sending stops early only when the schedule of reads is exhausted *and* the
window is closed: with an open window and data left, the next step sends. -/
theorem stops_only_on_closed_window (w : SendState) (sched : List (List Update)) (data : List Nat) :
    (sendData w sched data).left ≠ [] → Gen.flowWaits (flow (sendData w sched data).final) = true := by
  fun_induction sendData w sched data with
  | case1 => simp
  | case2 w d ds h => intro _; exact h
  | case3 _ _ _ _ _ _ ih => exact ih
  | case4 w sched d ds h n r ih => exact ih

/-- the wait loop waits exactly while the usable window is not positive (regenerated from the source; a negative
window - possible after SETTINGS_INITIAL_WINDOW_SIZE is lowered - must wait too) -/
theorem waits_iff_no_window (f : Int) : Gen.flowWaits f = true ↔ f ≤ 0 := by
  simp [Gen.flowWaits]

theorem send_takes_min : Gen.sendTakesMinLenFlow = true := by decide

/-- **flow_wait_notices_reset** - Tie A (regenerated): an upload that waits for credit names its stream to the reader, and the reader -
with the read lock held, before it touches the network - raises RemoteProtocolError if a RST_STREAM has already been filed for that
stream (by whichever request was reading when it arrived): the wait ends as soon as credit can no longer come (finding F-C13-c). -/
theorem flow_wait_notices_reset : Gen.flowWaitSeesResets = true := by decide

/-! ## receiving: credit -/

/-- what the peer may still send + what is in httpcore's hands + what is acknowledged but not yet returned
= the maximum window -/
def WinInv (w : Win) : Prop := w.cur + w.pend + w.proc = w.max

theorem consume_inv (w w' : Win) (n : Nat) (h : WinInv w) (hc : w.consume n = some w') : WinInv w' := by
  unfold Win.consume at hc
  split at hc
  · cases hc; unfold WinInv at *; simp only []; omega
  · cases hc

theorem process_inv (w : Win) (n : Nat) (h : WinInv w) (hn : n ≤ w.pend) : WinInv (w.process n).1 := by
  unfold WinInv at *
  unfold Win.process
  simp only []
  split
  · simp only []; omega
  · split
    · simp only []; omega
    · simp only []; omega

/-- **C13.credit_returned** — once httpcore has acknowledged everything it received (`pend = 0`, which it does per
DataReceived event consumed), more than half of the maximum window is open to the peer again: the peer can always
continue a response body, whatever its size. -/
theorem credit_returned (w : Win) (n : Nat) (h : WinInv w) (hn : n = w.pend) (hmax : 0 < w.max) :
    (w.process n).1.pend = 0 ∧ 2 * (w.process n).1.cur > w.max - 2 ∧ 0 < (w.process n).1.cur := by
  unfold WinInv at h
  unfold Win.process
  simp only []
  split
  · simp only []; omega
  · split
    · simp only []; omega
    · rename_i h1 h2
      simp only []
      have h3 : ¬ (w.proc + n ≥ w.max / 2) := fun hx => h2 (Or.inr hx)
      omega

/-- the increment announced to the peer is exactly what is added to its window, and never overshoots the maximum -/
theorem increment_exact (w : Win) (n : Nat) (h : WinInv w) (hn : n ≤ w.pend) :
    (w.process n).1.cur = w.cur + (w.process n).2 ∧ (w.process n).1.cur ≤ w.max := by
  unfold WinInv at h
  unfold Win.process
  simp only []
  split
  · simp only []; omega
  · split
    · simp only []
      have := Nat.min_le_right (w.proc + n) (w.max - w.cur)
      exact ⟨trivial, by omega⟩
    · simp only []; omega

/-- httpcore acknowledges the flow-controlled length (payload + padding) of each DATA event (regenerated) -/
theorem ack_uses_flow_controlled_length : Gen.ackUsesFlowControlledLength = true := by decide

/-! non-vacuity -/
example : (sendData { streamWin := 5, connWin := 100, maxFrame := 3 } [[.streamWindow 4]] [1, 2, 3, 4, 5, 6, 7]).emitted.map (·.1)
    = [[1, 2, 3], [4, 5], [6, 7]] := by
  simp [sendData, flow, Gen.flowWaits, applyUpdate, applyAll, Int.min_def, Nat.min_def]
example : (sendData { streamWin := -5, connWin := 100, maxFrame := 3 } [[.streamWindow 4]] [1, 2]).left = [1, 2] := by
  simp [sendData, flow, Gen.flowWaits, applyUpdate, applyAll, Int.min_def, Nat.min_def]
example : WinInv { max := 100, cur := 40, pend := 60, proc := 0 } := by simp [WinInv]

end Httpcore.C13
