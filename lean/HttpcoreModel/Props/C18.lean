import HttpcoreModel.Unasync
/-!
# C18 — Sync and async APIs behave identically (the translator half)
-/
namespace Httpcore.C18
open Httpcore Httpcore.Unasync

/-- **C18.file_is_linewise** — the translation of a file has exactly as many lines as the file, and its i-th line is
the translation of the i-th line alone. Hence "`_sync/x.py` is the translation of `_async/x.py`" is decided by comparing
*all* lines and the *line counts* - which is what the correspondence check does and what `unasync.py --check`
(zip up to the shorter file) does not. -/
theorem file_is_linewise (t : List Pat) (lines : List (List Char)) :
    (unasyncFile t lines).length = lines.length ∧
    ∀ i (h : i < lines.length), (unasyncFile t lines)[i]? = some (unasyncLine t lines[i]) := by
  refine ⟨by simp [unasyncFile], ?_⟩
  intro i h
  simp [unasyncFile, h]

theorem file_append (t : List Pat) (a b : List (List Char)) :
    unasyncFile t (a ++ b) = unasyncFile t a ++ unasyncFile t b := by
  simp [unasyncFile]

/-- a file with extra (or missing) trailing lines is never the translation, whatever the lines are -/
theorem extra_lines_detected (t : List Pat) (lines extra : List (List Char)) (h : extra ≠ []) :
    unasyncFile t lines ≠ unasyncFile t lines ++ extra ∧ (unasyncFile t (lines ++ extra)).length ≠ (unasyncFile t lines).length := by
  constructor
  · intro heq
    have := congrArg List.length heq
    simp at this
    exact h this
  · simp [unasyncFile]
    exact h

/-! ## lines the translator leaves alone -/

theorem matchAt_none_of_not_prefix (p : Pat) (prev : Option Char) (s : List Char)
    (h : matchPrefix (core p) s = none) : matchAt p prev s = none := by
  unfold matchAt
  split
  · rfl
  · cases p with
    | lit src dst => simp only [core] at h; simp [h]
    | asyncClass =>
      simp only [core] at h
      simp only [h]

theorem subFrom_id (p : Pat) (fuel : Nat) (prev : Option Char) (s : List Char) (h : occurs (core p) s = false) :
    subFrom p fuel prev s = s := by
  induction fuel generalizing prev s with
  | zero => simp [subFrom]
  | succ n ih =>
    cases s with
    | nil => simp [subFrom]
    | cons c cs =>
      simp only [occurs, Bool.or_eq_false_iff] at h
      have hm : matchPrefix (core p) (c :: cs) = none := by
        cases hx : matchPrefix (core p) (c :: cs) with
        | none => rfl
        | some v => simp [hx] at h
      simp only [subFrom, matchAt_none_of_not_prefix p prev (c :: cs) hm]
      rw [ih (some c) cs h.2]

/-- **C18.untouched_line** — a line in which no pattern's character sequence occurs is copied unchanged, for every line
and every table: code that never mentions `async`/`await`/`Async…`/`aclose`/… is identical in both packages, so a
change to such a line on one side only is always a difference. -/
theorem untouched_line (t : List Pat) (line : List Char) (h : ∀ p ∈ t, occurs (core p) line = false) :
    unasyncLine t line = line := by
  induction t generalizing line with
  | nil => rfl
  | cons p ps ih =>
    simp only [unasyncLine, List.foldl_cons]
    have hp : sub p line = line := subFrom_id p _ none line (h p (List.mem_cons_self ..))
    rw [hp]
    exact ih line (fun q hq => h q (List.mem_cons_of_mem _ hq))

/-- the regenerated table lies in the modelled fragment and has the shape the model was validated with:
19 patterns, the class-name pattern in fourth place -/
theorem table_shape : table.length = 19 ∧ table[3]? = some .asyncClass := by decide

/-! non-vacuity / examples on the regenerated table -/
set_option maxRecDepth 20000 in
example : unasyncLine table "async def aclose(self) -> AsyncIterator[AsyncFoo]: await self.x.aclose()\n".toList
    = "def close(self) -> Iterator[Foo]: self.x.close()\n".toList := by decide +kernel
example : occurs (core (.lit ("await ".toList.map some) [])) "x = 1\n".toList = false := by decide

end Httpcore.C18
