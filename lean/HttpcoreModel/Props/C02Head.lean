import HttpcoreModel.H1Render
import HttpcoreModel.Props.C03Parse
/-!
# C02 - the response head round trip: a well-formed head, as a server writes it, is read back as exactly that head
-/
namespace Httpcore.C02H
open Httpcore Httpcore.H1

theorem splitOnElem_append_sep (sep : Nat) (a b : Bytes) (ha : ∀ x ∈ a, x ≠ sep) :
    splitOnElem sep (a ++ sep :: b) = a :: splitOnElem sep b := by
  induction a with
  | nil => simp [splitOnElem]
  | cons x xs ih =>
    have hx : (x == sep) = false := by simpa using ha x (by simp)
    have := ih (fun y hy => ha y (by simp [hy]))
    simp [splitOnElem, hx, this]

theorem split_lines_raw (lines : List Bytes) (hlf : ∀ l ∈ lines, ∀ x ∈ l, x ≠ 10) :
    splitOnElem 10 ((lines.map (· ++ [13, 10])).flatten ++ [13, 10]) = lines.map (· ++ [13]) ++ [[13], []] := by
  induction lines with
  | nil =>
    have : ([13, 10] : Bytes) = [13] ++ 10 :: [] := rfl
    simp only [List.map_nil, List.flatten_nil, List.nil_append]
    rw [this, splitOnElem_append_sep 10 [13] [] (by simp)]
    simp [splitOnElem]
  | cons l ls ih =>
    have e : ((l :: ls).map (· ++ [13, 10])).flatten ++ [13, 10]
        = (l ++ [13]) ++ 10 :: ((ls.map (· ++ [13, 10])).flatten ++ [13, 10]) := by simp
    rw [e, splitOnElem_append_sep 10 (l ++ [13]) _ ?_, ih (fun x hx => hlf x (by simp [hx]))]
    · simp
    · intro x hx
      simp only [List.mem_append, List.mem_singleton] at hx
      rcases hx with h | h
      · exact hlf l (by simp) x h
      · omega

theorem stripCR_line (l : Bytes) :
    (match (l ++ [13]).reverse with | 13 :: r => r.reverse | _ => l ++ [13]) = l := by
  simp

theorem splitLines_raw (lines : List Bytes) (hlf : ∀ l ∈ lines, ∀ x ∈ l, x ≠ 10) :
    splitLines ((lines.map (· ++ [13, 10])).flatten ++ [13, 10]) = lines ++ [[], []] := by
  unfold splitLines
  rw [split_lines_raw lines hlf]
  have hm : ∀ (f : Bytes → Bytes), (∀ l, f (l ++ [13]) = l) → ∀ ls : List Bytes, List.map (f ∘ fun x => x ++ [13]) ls = ls := by
    intro f hf ls
    induction ls with
    | nil => rfl
    | cons l ls ih => simp only [List.map_cons, Function.comp_apply, ih, hf]
  simp only [List.map_append, List.map_map]
  rw [hm _ (by intro l; simp)]
  simp

theorem obsFold_plain (last : Option Bytes) (ls : List Bytes) (h : ∀ l ∈ ls, ∃ c t, l = c :: t ∧ isOWS c = false) :
    obsFold last ls = some ((match last with | none => [] | some l => [l]) ++ ls) := by
  induction ls generalizing last with
  | nil => cases last <;> simp [obsFold]
  | cons l ls ih =>
    obtain ⟨c, t, rfl, hc⟩ := h (l) (by simp)
    have ih' := ih (some (c :: t)) (fun x hx => h x (by simp [hx]))
    cases last with
    | none => simp [obsFold, hc, ih']
    | some p => simp [obsFold, hc, ih']

/-- what a server must respect for the head to be well-formed (h11's grammar) -/
structure WellFormed (a b d1 d2 d3 : Nat) (reason : Bytes) (hs : List Header) : Prop where
  ver : isDigit a = true ∧ isDigit b = true
  code : isDigit d1 = true ∧ isDigit d2 = true ∧ isDigit d3 = true ∧ 100 ≤ digitsVal [d1, d2, d3]
  reason_ok : reason.all (fun c => isOWS c || isFieldVchar c) = true
  headers_ok : ∀ h ∈ hs, h.1 ≠ [] ∧ h.1.all isTokenChar = true ∧ H1W.validFieldValue h.2 = true
  /-- the header list is what h11 reports, i.e. a fixed point of its normalisation (one Content-Length value, `chunked` in lower case) -/
  normal : normalize none false hs = some hs

theorem no_lf_of_all (l : Bytes) (p : Nat → Bool) (hp : ∀ c, p c = true → c ≠ 10) (h : l.all p = true) : ∀ x ∈ l, x ≠ 10 :=
  fun x hx => hp x (List.all_eq_true.mp h x hx)

theorem ows_or_vchar_ne (c : Nat) (h : (isOWS c || isFieldVchar c) = true) : c ≠ 10 ∧ c ≠ 13 := by
  simp only [isOWS, isFieldVchar, isReSpace, Bool.or_eq_true, Bool.and_eq_true, Bool.not_eq_true', bne_iff_ne, Bool.or_eq_false_iff,
    Bool.and_eq_false_iff, beq_eq_false_iff_ne, decide_eq_false_iff_not, beq_iff_eq] at h
  omega

theorem digit_ne (c : Nat) (h : isDigit c = true) : c ≠ 10 ∧ c ≠ 13 ∧ 33 ≤ c := by
  simp only [isDigit, Bool.and_eq_true, decide_eq_true_eq] at h; omega

theorem headerLine_facts (h : Header) (hn : h.1 ≠ []) (ht : h.1.all isTokenChar = true) (hv : H1W.validFieldValue h.2 = true) :
    (∀ x ∈ headerLine h, x ≠ 10) ∧ (∀ x ∈ headerLine h, x ≠ 13) ∧ (∃ c t, headerLine h = c :: t ∧ isOWS c = false ∧ 33 ≤ c) := by
  have hv13 := C03P.validFieldValue_no_cr h.2 hv
  have hv10 : ∀ x ∈ h.2, x ≠ 10 := by
    intro x hx h10
    cases hh : h.2 with
    | nil => rw [hh] at hx; simp at hx
    | cons c cs =>
      rw [hh] at hv hx
      simp only [H1W.validFieldValue, Bool.and_eq_true] at hv
      have := List.all_eq_true.mp hv.2 x hx
      subst h10
      simp [isFieldVchar, isReSpace, isOWS] at this
  have htok : ∀ x ∈ h.1, x ≠ 10 ∧ x ≠ 13 ∧ x ≠ 32 ∧ 33 ≤ x := by
    intro x hx
    have := List.all_eq_true.mp ht x hx
    simp only [isTokenChar, Bool.or_eq_true, Bool.and_eq_true, decide_eq_true_eq, beq_iff_eq] at this
    omega
  refine ⟨?_, ?_, ?_⟩
  · intro x hx
    simp only [headerLine, List.mem_append, List.mem_cons] at hx
    rcases hx with (h1 | h1 | h1 | h1) | h1
    · exact (htok x h1).1
    · omega
    · omega
    · simp at h1
    · exact hv10 x h1
  · intro x hx
    simp only [headerLine, List.mem_append, List.mem_cons] at hx
    rcases hx with (h1 | h1 | h1 | h1) | h1
    · exact (htok x h1).2.1
    · omega
    · omega
    · simp at h1
    · exact hv13 x h1
  · cases hh : h.1 with
    | nil => exact absurd hh hn
    | cons c t =>
      refine ⟨c, t ++ [58, 32] ++ h.2, by simp [headerLine, hh], ?_, ?_⟩
      · have := htok c (by simp [hh])
        simp only [isOWS, Bool.or_eq_false_iff, beq_eq_false_iff_ne]; omega
      · exact (htok c (by simp [hh])).2.2.2

/-- **C02.parse_head_roundtrip** - for every well-formed response head (any version digits, any three-digit status from 100, any
reason phrase incl. the empty one, any list of headers that is a fixed point of h11's normalisation): reading back what the server
wrote gives exactly that version, status, reason phrase and header list, names and values byte for byte and in order. -/
theorem parse_head_roundtrip (a b d1 d2 d3 : Nat) (reason : Bytes) (hs : List Header) (hw : WellFormed a b d1 d2 d3 reason hs) :
    parseHead (renderHead a b d1 d2 d3 reason hs) =
      .ok (decide (digitsVal [d1, d2, d3] < 200))
        { version := [a, 46, b], status := digitsVal [d1, d2, d3], reason := reason, headers := hs } := by
  obtain ⟨⟨ha, hb⟩, ⟨h1, h2, h3, h100⟩, hr, hh, hn⟩ := hw
  have hsl10 : ∀ x ∈ statusLine a b d1 d2 d3 reason, x ≠ 10 := by
    intro x hx
    simp only [statusLine, List.mem_append, List.mem_cons] at hx
    have := digit_ne a ha; have := digit_ne b hb; have := digit_ne d1 h1; have := digit_ne d2 h2; have := digit_ne d3 h3
    rcases hx with (h | h | h | h | h | h | h | h | h | h | h | h | h | h) | h
    all_goals first
      | omega
      | (simp at h)
      | exact (ows_or_vchar_ne x (List.all_eq_true.mp hr x h)).1
  have hlines10 : ∀ l ∈ statusLine a b d1 d2 d3 reason :: hs.map headerLine, ∀ x ∈ l, x ≠ 10 := by
    intro l hl
    simp only [List.mem_cons, List.mem_map] at hl
    rcases hl with rfl | ⟨h, hh', rfl⟩
    · exact hsl10
    · obtain ⟨x1, x2, x3⟩ := hh h hh'
      exact (headerLine_facts h x1 x2 x3).1
  simp only [parseHead, renderHead]
  rw [splitLines_raw _ hlines10]
  have hlen : ((statusLine a b d1 d2 d3 reason :: hs.map headerLine) ++ [[], []]).length - 2 = (statusLine a b d1 d2 d3 reason :: hs.map headerLine).length := by
    simp
  rw [hlen, List.take_left']
  · simp only
    have hps : parseStatusLine (statusLine a b d1 d2 d3 reason) = some ([a, 46, b], digitsVal [d1, d2, d3], reason) := by
      simp only [statusLine, List.cons_append, List.nil_append, parseStatusLine, ha, hb, h1, h2, h3, Bool.and_self, if_true]
      cases reason with
      | nil => rfl
      | cons c cs => simp [hr]
    rw [hps]
    simp only
    have hof : obsFold none (hs.map headerLine) = some (hs.map headerLine) := by
      have := obsFold_plain none (hs.map headerLine) (by
        intro l hl
        simp only [List.mem_map] at hl
        obtain ⟨h, hh', rfl⟩ := hl
        obtain ⟨x1, x2, x3⟩ := hh h hh'
        obtain ⟨c, t, e, hc, _⟩ := (headerLine_facts h x1 x2 x3).2.2
        exact ⟨c, t, e, hc⟩)
      simpa using this
    rw [hof]
    simp only
    have hopt : optAllM parseHeaderLine (hs.map headerLine) = some hs := by
      have e : hs.map headerLine = hs.map (fun x => x.1 ++ [58, 32] ++ x.2) := by
        apply List.map_congr_left; intro x _; rfl
      rw [e]; exact C03P.optAll_headerLines hs hh
    rw [hopt]
    simp only [hn]
    have : ¬ digitsVal [d1, d2, d3] < 100 := by omega
    simp [this]
  · rfl

/-! ### where the head ends -/

theorem findBlank_step (x : Nat) (r : Bytes) (h : blankLen (x :: r) = none) :
    findBlank (x :: r) = (findBlank r).map fun p => (x :: p.1, p.2) := by
  rw [findBlank, h]
  cases findBlank r with
  | none => rfl
  | some p => cases p; rfl

theorem blankLen_none_of_ne (x : Nat) (r : Bytes) (hx : x ≠ 10) : blankLen (x :: r) = none := by
  unfold blankLen
  split
  · rename_i heq; simp at heq; omega
  · rename_i heq; simp at heq; omega
  · rfl

theorem blankLen_none_lf (c : Nat) (r : Bytes) (hc : c ≠ 10 ∧ c ≠ 13) : blankLen (10 :: c :: r) = none := by
  unfold blankLen
  split
  · rename_i heq; simp at heq; omega
  · rename_i heq; simp at heq; omega
  · rfl

theorem findBlank_skip_line (l : Bytes) (c : Nat) (rest : Bytes) (hl : ∀ x ∈ l, x ≠ 10) (hc : c ≠ 10 ∧ c ≠ 13) :
    findBlank (l ++ 13 :: 10 :: c :: rest) = (findBlank (c :: rest)).map fun p => (l ++ 13 :: 10 :: p.1, p.2) := by
  induction l with
  | nil =>
    rw [List.nil_append, findBlank_step 13 _ (blankLen_none_of_ne 13 _ (by omega)), findBlank_step 10 _ (blankLen_none_lf c rest hc)]
    cases findBlank (c :: rest) <;> simp
  | cons x xs ih =>
    have hx : x ≠ 10 := hl x (by simp)
    rw [List.cons_append, findBlank_step x _ (blankLen_none_of_ne x _ hx), ih (fun y hy => hl y (by simp [hy]))]
    cases findBlank (c :: rest) <;> simp

theorem findBlank_last_line (l body : Bytes) (hl : ∀ x ∈ l, x ≠ 10) :
    findBlank (l ++ 13 :: 10 :: 13 :: 10 :: body) = some (l ++ [13, 10, 13, 10], body) := by
  induction l with
  | nil =>
    have b2 : blankLen (10 :: 13 :: 10 :: body) = some 3 := by simp [blankLen]
    rw [List.nil_append, findBlank_step 13 _ (blankLen_none_of_ne 13 _ (by omega)), findBlank, b2]
    simp
  | cons x xs ih =>
    have hx : x ≠ 10 := hl x (by simp)
    rw [List.cons_append, findBlank_step x _ (blankLen_none_of_ne x _ hx), ih (fun y hy => hl y (by simp [hy]))]
    simp

theorem findBlank_lines (l : Bytes) (ls : List Bytes) (body : Bytes)
    (h10 : ∀ m ∈ l :: ls, ∀ x ∈ m, x ≠ 10)
    (hst : ∀ m ∈ ls, ∃ c t, m = c :: t ∧ c ≠ 10 ∧ c ≠ 13) :
    findBlank (((l :: ls).map (· ++ [13, 10])).flatten ++ [13, 10] ++ body) =
      some (((l :: ls).map (· ++ [13, 10])).flatten ++ [13, 10], body) := by
  induction ls generalizing l with
  | nil =>
    have := findBlank_last_line l body (h10 l (by simp))
    simpa using this
  | cons m ms ih =>
    obtain ⟨c, t, rfl, hc⟩ := hst m (by simp)
    have ih' := ih (c :: t) (fun x hx => h10 x (by simp at hx ⊢; rcases hx with h | h <;> simp [h]))
      (fun x hx => hst x (by simp [hx]))
    have e : ((l :: (c :: t) :: ms).map (· ++ [13, 10])).flatten ++ [13, 10] ++ body
        = l ++ 13 :: 10 :: c :: (t ++ [13, 10] ++ ((ms.map (· ++ [13, 10])).flatten ++ [13, 10] ++ body)) := by simp
    have e2 : (((c :: t) :: ms).map (· ++ [13, 10])).flatten ++ [13, 10] ++ body
        = c :: (t ++ [13, 10] ++ ((ms.map (· ++ [13, 10])).flatten ++ [13, 10] ++ body)) := by simp
    rw [e, findBlank_skip_line l c _ (h10 l (by simp)) hc, ← e2, ih']
    simp

/-- **C02.head_ends_where_it_ends** - the reader finds the end of a well-formed head exactly at its blank line, whatever follows
(body bytes, another response): nothing of the head is left behind and nothing of the body is swallowed. -/
theorem head_ends_where_it_ends (a b d1 d2 d3 : Nat) (reason : Bytes) (hs : List Header) (body : Bytes)
    (hw : WellFormed a b d1 d2 d3 reason hs) :
    findBlank (renderHead a b d1 d2 d3 reason hs ++ body) = some (renderHead a b d1 d2 d3 reason hs, body) := by
  obtain ⟨⟨ha, hb⟩, ⟨h1, h2, h3, _⟩, hr, hh, _⟩ := hw
  unfold renderHead
  apply findBlank_lines
  · intro m hm
    simp only [List.mem_cons, List.mem_map] at hm
    rcases hm with rfl | ⟨h, hh', rfl⟩
    · intro x hx
      simp only [statusLine, List.mem_append, List.mem_cons] at hx
      have := digit_ne a ha; have := digit_ne b hb; have := digit_ne d1 h1; have := digit_ne d2 h2; have := digit_ne d3 h3
      rcases hx with (h | h | h | h | h | h | h | h | h | h | h | h | h | h) | h
      all_goals first
        | omega
        | (simp at h)
        | exact (ows_or_vchar_ne x (List.all_eq_true.mp hr x h)).1
    · obtain ⟨x1, x2, x3⟩ := hh h hh'
      exact (headerLine_facts h x1 x2 x3).1
  · intro m hm
    simp only [List.mem_map] at hm
    obtain ⟨h, hh', rfl⟩ := hm
    obtain ⟨x1, x2, x3⟩ := hh h hh'
    obtain ⟨c, t, e, _, hc⟩ := (headerLine_facts h x1 x2 x3).2.2
    exact ⟨c, t, e, by omega, by omega⟩

/-- **C02.final_head_delivered** - the reader's head step on a well-formed *final* response head (status 200..999) followed by
anything: it reports exactly that head, moves to the body framing the head announces, and leaves exactly the bytes after the head. -/
theorem final_head_delivered (ri : ReqInfo) (a b d1 d2 d3 : Nat) (reason : Bytes) (hs : List Header) (body : Bytes)
    (hw : WellFormed a b d1 d2 d3 reason hs) (hfinal : 200 ≤ digitsVal [d1, d2, d3]) :
    extractHead ri (renderHead a b d1 d2 d3 reason hs ++ body) =
      some (.response { version := [a, 46, b], status := digitsVal [d1, d2, d3], reason := reason, headers := hs },
            afterResponse ri { version := [a, 46, b], status := digitsVal [d1, d2, d3], reason := reason, headers := hs }, body) := by
  have hfb := head_ends_where_it_ends a b d1 d2 d3 reason hs body hw
  have hph := parse_head_roundtrip a b d1 d2 d3 reason hs hw
  have hstart : renderHead a b d1 d2 d3 reason hs ++ body = 72 :: ((renderHead a b d1 d2 d3 reason hs ++ body).tail) := by
    simp [renderHead, statusLine]
  have hlt : decide (digitsVal [d1, d2, d3] < 200) = false := by simp; omega
  rw [hlt] at hph
  unfold extractHead
  rw [hstart]
  simp only
  rw [← hstart, hfb]
  simp only [hph]
  simp

theorem wellFormed_of_b (a b d1 d2 d3 : Nat) (reason : Bytes) (hs : List Header) (h : wellFormedB a b d1 d2 d3 reason hs = true) :
    WellFormed a b d1 d2 d3 reason hs := by
  simp only [wellFormedB, Bool.and_eq_true, decide_eq_true_eq, List.all_eq_true, bne_iff_ne, ne_eq] at h
  obtain ⟨⟨⟨⟨⟨⟨⟨⟨h1, h2⟩, h3⟩, h4⟩, h5⟩, h6⟩, h7⟩, h8⟩, h9⟩ := h
  exact ⟨⟨h1, h2⟩, ⟨h3, h4, h5, h6⟩, by simpa [List.all_eq_true] using h7, fun x hx => by
    obtain ⟨⟨x1, x2⟩, x3⟩ := h8 x hx; exact ⟨x1, by simpa [List.all_eq_true] using x2, x3⟩, h9⟩

/-- non-vacuity -/
example : WellFormed 49 49 50 48 48 (ascii "OK") [(ascii "Content-Length", ascii "5"), (ascii "X-A", ascii "b c")] :=
  ⟨by decide, by decide, by decide, by decide, by decide⟩

end Httpcore.C02H
