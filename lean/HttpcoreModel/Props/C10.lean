import HttpcoreModel.Establish
import HttpcoreModel.Pool
import HttpcoreModel.Props.C19
/-!
# C10 — Requests travel only on connections made for their origin, TLS per scheme

The scheme tables (`Gen.*Schemes`) are regenerated from the source on every run.
-/
namespace Httpcore.C10
open Httpcore Httpcore.Est

def http : Bytes := ascii "http"
def https : Bytes := ascii "https"
def ws : Bytes := ascii "ws"
def wss : Bytes := ascii "wss"

/-- the four schemes the pool accepts, as regenerated from the source -/
theorem scheme_tables :
    Gen.supportedSchemes = [http, https, ws, wss] ∧
    Gen.directTlsSchemes = [https, wss] ∧
    Gen.socksProxySchemes = [ascii "socks5", ascii "socks5h"] ∧
    Gen.forwardSchemes = [http] := by decide

def secure (scheme : Bytes) : Bool := scheme = https || scheme = wss

/-- **C10.kind_selection** — the connection kind as a function of (proxy scheme, origin scheme):
no proxy → direct; SOCKS proxy → SOCKS for every scheme; HTTP(S) proxy → plain `http` is forwarded,
everything else is tunnelled with CONNECT. -/
theorem kind_selection (p : Pool) (scheme : Bytes) (hs : scheme ∈ Gen.supportedSchemes) :
    kindOf p scheme =
      match p.proxy with
      | none => .direct
      | some px =>
        if px.scheme = ascii "socks5" ∨ px.scheme = ascii "socks5h" then .socks
        else if scheme = http then .forward else .tunnel := by
  simp only [Gen.supportedSchemes] at hs
  cases hp : p.proxy with
  | none => simp [kindOf, hp]
  | some px =>
    simp only [kindOf, hp]
    by_cases h1 : px.scheme = ascii "socks5"
    · have hc : ascii "socks5" ∈ Gen.socksProxySchemes := by decide
      simp [h1, hc]
    · by_cases h2 : px.scheme = ascii "socks5h"
      · have hc : ascii "socks5h" ∈ Gen.socksProxySchemes := by decide
        simp [h2, hc]
      · have : Gen.socksProxySchemes.contains px.scheme = false := by
          simp only [Gen.socksProxySchemes, List.contains_cons, List.contains_nil, Bool.or_false, Bool.or_eq_false_iff,
            beq_eq_false_iff_ne, ne_eq]
          exact ⟨h1, h2⟩
        simp only [this, h1, h2, or_self, Bool.false_eq_true, if_false]
        simp at hs
        rcases hs with rfl | rfl | rfl | rfl <;> decide

/-- **C10.tls_iff** — for every proxy mode and every supported scheme, the stream that carries
the request is TLS-wrapped (to the origin) iff the scheme is `https` or `wss`. -/
theorem tls_iff (p : Pool) (scheme : Bytes) (hs : scheme ∈ Gen.supportedSchemes) :
    tlsToOrigin (kindOf p scheme) scheme = secure scheme := by
  rw [kind_selection p scheme hs]
  simp only [Gen.supportedSchemes] at hs
  simp at hs
  cases p.proxy with
  | none => rcases hs with rfl | rfl | rfl | rfl <;> decide
  | some px =>
    simp only
    split
    · rcases hs with rfl | rfl | rfl | rfl <;> decide
    · rcases hs with rfl | rfl | rfl | rfl <;> decide

/-- **C10.sni_rule** — the server name of the origin handshake is the `sni_hostname` extension
when given (the CONNECT tunnel uses the URL host), else the URL host: always one of the two. -/
theorem sni_rule (k : Kind) (host : Bytes) (sni : Option Bytes) :
    serverName k host sni = host ∨ (∃ s, sni = some s ∧ s ≠ [] ∧ serverName k host sni = s) := by
  cases k <;> cases sni <;> simp [serverName]
  all_goals
    rename_i s
    by_cases h : s = []
    · simp [h]
    · simp [h]

/-- **C10.alpn_offer** — ALPN offers `h2` iff HTTP/2 is enabled, and always offers `http/1.1`. -/
theorem alpn_offer_h2_iff (http2 : Bool) :
    ("h2" ∈ alpnOffer http2 ↔ http2 = true) ∧ "http/1.1" ∈ alpnOffer http2 := by
  cases http2 <;> simp [alpnOffer]

/-- **C10.h2_iff** — HTTP/2 is spoken iff ALPN selected `h2`, or HTTP/2 is enabled and HTTP/1.1 is
disabled. -/
theorem h2_iff (http1 http2 : Bool) (sel : Option String) :
    speaksH2 http1 http2 sel = true ↔ (sel = some "h2" ∨ (http2 = true ∧ http1 = false)) := by
  simp [speaksH2]

/-- **C10.origin_gate (establishment)** — whatever the proxy mode, the host and port that the new
stream is established *to* — the direct connect target, the CONNECT target, the SOCKS address —
are exactly the request origin's host and port; only the TCP hop goes to the proxy. -/
theorem establishment_target (p : Pool) (o : Url.Origin) (sni : Option Bytes) :
    (plan p o sni).target = (o.host, o.port) ∧
    (p.proxy = none → (plan p o sni).connectHost = o.host ∧ (plan p o sni).connectPort = o.port) ∧
    (∀ px, p.proxy = some px → (plan p o sni).connectHost = px.host ∧ (plan p o sni).connectPort = px.port) := by
  refine ⟨?_, ?_, ?_⟩
  · unfold plan; simp only; split <;> rfl
  · intro h; unfold plan; simp [h, kindOf]
  · intro px h
    unfold plan
    simp only [h]
    cases hk : kindOf p o.scheme <;> simp
    · simp [kindOf, h] at hk
      split at hk
      · cases hk
      · split at hk <;> cases hk

/-- **C10.origin_gate (pool)** — the assignment pass gives a request either a pooled connection
whose origin equals the request's origin, or a connection newly created for that origin. -/
theorem assigned_connection_has_request_origin (cfg : Pool.Cfg) (s : Pool.State) (r : Pool.Req) (cid : Nat)
    (h : (Pool.assignOne cfg s r).2.conn = some cid) (hr : r.conn = none) :
    (∃ c ∈ s.conns, c.id = cid ∧ c.origin = r.origin) ∨
    (cid = s.nextId ∧ ∃ c ∈ (Pool.assignOne cfg s r).1.conns, c.id = cid ∧ c.origin = r.origin) := by
  simp only [Pool.assignOne] at h ⊢
  split
  · rename_i c tl hav
    left
    have hm : c ∈ s.conns.filter (fun c => c.origin == r.origin && c.available) := by rw [hav]; simp
    obtain ⟨hm1, hm2⟩ := List.mem_filter.mp hm
    simp only [Bool.and_eq_true, beq_iff_eq] at hm2
    simp only [hav, Option.some.injEq] at h
    exact ⟨c, hm1, h, hm2.1⟩
  · rename_i hav
    simp only [hav] at h
    split
    · rename_i hroom
      simp only [hroom, if_true, Option.some.injEq] at h
      right
      exact ⟨h.symm, Pool.fresh cfg s.nextId r.origin, by simp, by simpa [Pool.fresh] using h, rfl⟩
    · rename_i hfull
      simp only [hfull, if_false] at h
      split
      · rename_i i tl hi
        simp only [hi, Option.some.injEq] at h
        right
        exact ⟨h.symm, Pool.fresh cfg s.nextId r.origin, by simp, by simpa [Pool.fresh] using h, rfl⟩
      · rename_i hi
        simp [hi, hr] at h

/-- **C10.near_miss** — two URLs that differ in exactly one of scheme / host / effective port have
different origins (so the pool's `origin ==` test never lets them share a connection), while an
explicit default port and no port give the same origin. (From C19.) -/
theorem near_miss_origins_differ (u v : Url.URL) (ou ov : Url.Origin) (hu : Url.origin u = some ou)
    (hv : Url.origin v = some ov)
    (hdiff : u.scheme ≠ v.scheme ∨ u.host ≠ v.host ∨ C19.effectivePort u ≠ C19.effectivePort v) : ou ≠ ov :=
  C19.origin_distinguishes u v ou ov hu hv hdiff

/-! non-vacuity -/
example : tlsToOrigin (kindOf ⟨some ⟨ascii "http", ascii "p", 3128, none, []⟩, true, false⟩ ws) ws = false := by decide
example : tlsToOrigin (kindOf ⟨some ⟨ascii "socks5", ascii "p", 1080, none, []⟩, true, false⟩ wss) wss = true := by decide

end Httpcore.C10
