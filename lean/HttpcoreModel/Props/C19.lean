import HttpcoreModel.Lemmas.UrlRender
/-!
# C19 — URL, origin and default-header semantics (property theorems only)
-/
namespace Httpcore.C19
open Httpcore Httpcore.Url

/-- `parse` with the error forgotten (gives a decidable equality for concrete examples) -/
def parseOk (raw : Bytes) : Option URL :=
  match parse raw with
  | .ok u => some u
  | .error _ => none

/-- **C19.parse_render** — for every well-formed component tuple (any scheme text, optional
userinfo, reg-name / IPv4 / bracketed IPv6 host in any case, optional port digits, any path incl.
`;` parameters, dot segments and escapes, optional query, optional fragment) parsing the rendered URL
yields exactly what RFC 3986 component splitting yields: lower-cased scheme and host (brackets
stripped), the port, and the *complete* path plus the non-empty query; no fragment, no userinfo.

`_partial`: `Comp.WF` excludes a `%` inside a reg-name host (known finding F-C19-d, see
`host_percent_counterexample`). -/
theorem parse_render_partial (c : Comp) (h : c.WF) : parse c.render = .ok c.expected := by
  unfold parse
  rw [render_ascii h]
  simp only [Bool.false_eq_true, if_false]
  rw [sanitize_render h, splitScheme_render h]
  simp only
  rw [splitNetloc_render h]
  simp only [Option.getD]
  obtain ⟨hb1, hb2⟩ := netloc_brackets h
  rw [hb1, hb2]
  simp only [bne_self_eq_false, Bool.false_eq_true, if_false]
  have hparam : Gen.urlUsesParamSplit = false := rfl
  rw [partition_tail_fragment h, partition_pathQuery h, hostinfo_netloc h, parsePort_port h,
    hostnameOf_host h, hparam]
  cases h6 : c.ipv6 with
  | true =>
    have hb := bracket_content h h6
    simp only [Option.getD] at hb
    simp [hb, (h.host6 h6).1, Comp.expected]
    cases c.query <;> simp
  | false =>
    simp [Comp.expected]
    cases c.query <;> simp

/-- the full statement fails for a reg-name host containing `%`: the text after it keeps its case -/
theorem host_percent_counterexample :
    parseOk (ascii "http://A%2DB/") =
      some { scheme := ascii "http", host := ascii "a%2DB", port := none, target := ascii "/" } := by
  decide

/-- **C19.parse_scheme_lower_host_lower** — corollary in the words of the property. -/
theorem parse_scheme_lower_host_lower (c : Comp) (h : c.WF) :
    ∃ u, parse c.render = .ok u ∧ u.scheme = lower c.scheme ∧ u.host = lower c.host ∧
      (c.path ≠ [] → ∃ rest, u.target = c.path ++ rest) :=
  ⟨c.expected, parse_render_partial c h, rfl, rfl, fun hp =>
    ⟨(match c.query with | some q => if q.isEmpty then [] else 63 :: q | none => []),
      by simp [Comp.expected, hp]; cases c.query <;> simp⟩⟩

def supported : List Bytes := [ascii "http", ascii "https", ascii "ws", ascii "wss"]

/-- **C19.origin_ports (a)** — an explicit default port and no port give the same origin,
for every supported scheme and every host. -/
theorem origin_ports (scheme host target target' : Bytes) (hs : scheme ∈ supported) :
    ∃ d, lookup scheme Gen.originDefaultPorts = some d ∧
      origin { scheme, host, port := some d, target } =
      origin { scheme, host, port := none, target := target' } := by
  simp only [supported, List.mem_cons, List.not_mem_nil, or_false] at hs
  rcases hs with rfl | rfl | rfl | rfl
  · exact ⟨80, by decide, by simp [origin, show lookup (ascii "http") Gen.originDefaultPorts = some 80 by decide, Gen.originPortUsesOr]⟩
  · exact ⟨443, by decide, by simp [origin, show lookup (ascii "https") Gen.originDefaultPorts = some 443 by decide, Gen.originPortUsesOr]⟩
  · exact ⟨80, by decide, by simp [origin, show lookup (ascii "ws") Gen.originDefaultPorts = some 80 by decide, Gen.originPortUsesOr]⟩
  · exact ⟨443, by decide, by simp [origin, show lookup (ascii "wss") Gen.originDefaultPorts = some 443 by decide, Gen.originPortUsesOr]⟩

/-- the default ports are the registered ones -/
theorem default_ports :
    lookup (ascii "http") Gen.originDefaultPorts = some 80 ∧
    lookup (ascii "https") Gen.originDefaultPorts = some 443 ∧
    lookup (ascii "ws") Gen.originDefaultPorts = some 80 ∧
    lookup (ascii "wss") Gen.originDefaultPorts = some 443 ∧
    lookup (ascii "http") Gen.hostDefaultPorts = some 80 ∧
    lookup (ascii "https") Gen.hostDefaultPorts = some 443 ∧
    lookup (ascii "ws") Gen.hostDefaultPorts = some 80 ∧
    lookup (ascii "wss") Gen.hostDefaultPorts = some 443 := by decide

/-- effective port of a URL: the explicit one, else the scheme's default -/
def effectivePort (u : URL) : Option Nat :=
  match u.port with
  | some p => some p
  | none => lookup u.scheme Gen.originDefaultPorts

/-- **C19.origin_eq_iff** — two URLs (whose schemes have a default port) have equal origins iff
scheme, host and effective port are equal: any difference in one of them separates them, including
an explicit port 0. -/
theorem origin_eq_iff (u v : URL) (ou ov : Origin) (hu : origin u = some ou) (hv : origin v = some ov) :
    ou = ov ↔ (u.scheme = v.scheme ∧ u.host = v.host ∧ effectivePort u = effectivePort v) := by
  unfold origin at hu hv
  have hor : Gen.originPortUsesOr = false := rfl
  cases hlu : lookup u.scheme Gen.originDefaultPorts with
  | none => simp [hlu] at hu
  | some du =>
    cases hlv : lookup v.scheme Gen.originDefaultPorts with
    | none => simp [hlv] at hv
    | some dv =>
      simp only [hlu, hlv, hor, Bool.false_and, Bool.false_eq_true, if_false, Option.some.injEq] at hu hv
      subst hu hv
      cases hpu : u.port <;> cases hpv : v.port <;>
        simp [effectivePort, hpu, hpv, hlu, hlv, Origin.mk.injEq]

/-- **C19.origin_distinguishes** — changing exactly one of scheme / host / effective port changes
the origin (so such URLs never share a connection, C10). -/
theorem origin_distinguishes (u v : URL) (ou ov : Origin) (hu : origin u = some ou)
    (hv : origin v = some ov)
    (hdiff : u.scheme ≠ v.scheme ∨ u.host ≠ v.host ∨ effectivePort u ≠ effectivePort v) :
    ou ≠ ov := by
  intro heq
  have := (origin_eq_iff u v ou ov hu hv).mp heq
  rcases hdiff with h | h | h
  · exact h this.1
  · exact h this.2.1
  · exact h this.2.2

/-- rendering of a parsed URL as components (used by `roundtrip`) -/
def compOf (u : URL) (path : Bytes) (query : Option Bytes) : Comp :=
  { scheme := u.scheme, userinfo := none, host := u.host, ipv6 := u.host.contains 58,
    port := u.port.map decimal, path := path, query := query, fragment := none }

/-- **C19.roundtrip** — serialising a URL parses back to an equal URL: for every URL whose fields
are in the image of the parser on well-formed input (lower-case scheme and host, port ≤ 65535, target
= path ++ optional non-empty query), `URL(bytes(u)) = u`; IPv6 hosts included. -/
theorem roundtrip (u : URL) (path : Bytes) (query : Option Bytes)
    (hw : (compOf u path query).WF)
    (hs : lower u.scheme = u.scheme) (hh : lower u.host = u.host)
    (hpath : path ≠ []) (hq : ∀ q, query = some q → q ≠ [])
    (ht : u.target = path ++ optPre 63 query) (hp : ∀ p, u.port = some p → p ≤ 65535) :
    parse (toBytes u) = .ok u := by
  have hrender : toBytes u = (compOf u path query).render := by
    have hhead : u.host.head? ≠ some 91 := by
      intro hc
      cases hhost : u.host with
      | nil => simp [hhost] at hc
      | cons x xs =>
        simp [hhost] at hc; subst hc
        cases h6 : (compOf u path query).ipv6 with
        | true =>
          have := (hw.host6 h6).2 91 (by simp [compOf, hhost])
          simp [isHex, isDigit] at this
        | false =>
          have := hw.hostReg h6 91 (by simp [compOf, hhost])
          omega
    cases hpo : u.port with
    | none =>
      by_cases h6 : 58 ∈ u.host
      · simp [toBytes, hpo, uriHost, h6, hhead, Comp.render, Comp.netloc, Comp.hostPort, Comp.hostText,
          Comp.tail, Comp.pathQuery, compOf, optPre, ht, ascii]
      · simp [toBytes, hpo, uriHost, h6, Comp.render, Comp.netloc, Comp.hostPort, Comp.hostText,
          Comp.tail, Comp.pathQuery, compOf, optPre, ht, ascii]
    | some p =>
      by_cases h6 : 58 ∈ u.host
      · simp [toBytes, hpo, uriHost, h6, hhead, Comp.render, Comp.netloc, Comp.hostPort, Comp.hostText,
          Comp.tail, Comp.pathQuery, compOf, optPre, ht, ascii]
      · simp [toBytes, hpo, uriHost, h6, Comp.render, Comp.netloc, Comp.hostPort, Comp.hostText,
          Comp.tail, Comp.pathQuery, compOf, optPre, ht, ascii]
  rw [hrender, parse_render_partial _ hw]
  congr 1
  cases u with
  | mk scheme host port target =>
    simp only [Comp.expected, compOf] at *
    simp only [hs, hh, URL.mk.injEq, true_and]
    constructor
    · cases port with
      | none => rfl
      | some p =>
        simp only [Option.map]
        cases hd : decimal p with
        | nil => exact absurd hd (decimal_ne_nil p)
        | cons d ds => simp [← hd, digitsToNat_decimal]
    · subst ht
      cases query with
      | none => simp [optPre, hpath]
      | some q => simp [optPre, hpath, hq q rfl]

/-- the `uri-host` form of a host: an IPv6 literal in brackets, anything else as is -/
def uriHostSpec (host : Bytes) (isIPv6 : Bool) : Bytes := if isIPv6 then 91 :: host ++ [93] else host

/-- **C19.host_header** — the synthesised Host value is `uri-host [":" port]`: IPv6 literals in
brackets, and the port appears exactly when it is present and not the scheme's default. -/
theorem host_header (u : URL) (isIPv6 : Bool) (hv6 : u.host.contains 58 = isIPv6)
    (hnb : u.host.head? ≠ some 91) :
    hostHeaderValue u =
      match u.port with
      | none => uriHostSpec u.host isIPv6
      | some p =>
        if some p = lookup u.scheme Gen.hostDefaultPorts then uriHostSpec u.host isIPv6
        else uriHostSpec u.host isIPv6 ++ 58 :: decimal p := by
  subst hv6
  have hu : uriHost u.host = uriHostSpec u.host (u.host.contains 58) := by
    by_cases h6 : 58 ∈ u.host
    · simp [uriHost, uriHostSpec, h6, hnb]
    · simp [uriHost, uriHostSpec, h6]
  cases hp : u.port with
  | none => simp [hostHeaderValue, hp, hu]
  | some p =>
    simp only [hostHeaderValue, hp, hu]
    by_cases hd : some p = lookup u.scheme Gen.hostDefaultPorts
    · simp [hd]
    · simp [hd]

/-- **C19.host_header_only_if_missing** — a Host header is added (in first position) iff the
caller gave none, case-insensitively; the caller's headers follow unchanged, in order. -/
theorem host_header_only_if_missing (hs : List Header) (u : URL) :
    includeRequestHeaders hs u .none =
      if hasHeader (ascii "host") hs then hs else (ascii "Host", hostHeaderValue u) :: hs := by
  simp [includeRequestHeaders]

/-- **C19.framing_header_only_if_missing** — exactly one of Content-Length (bytes content) /
Transfer-Encoding: chunked (iterator content) is appended iff the caller gave neither. -/
theorem framing_header_only_if_missing (hs : List Header) (u : URL) (c : Content) :
    ∃ added, includeRequestHeaders hs u c = includeRequestHeaders hs u .none ++ added ∧
      added =
        (if hasHeader (ascii "content-length") hs || hasHeader (ascii "transfer-encoding") hs then []
         else match c with
           | .none => []
           | .bytes n => [(ascii "Content-Length", decimal n)]
           | .iter => [(ascii "Transfer-Encoding", ascii "chunked")]) := by
  refine ⟨_, ?_, rfl⟩
  by_cases h1 : hasHeader (ascii "content-length") hs = true <;>
  by_cases h2 : hasHeader (ascii "transfer-encoding") hs = true <;>
  cases c <;> simp [includeRequestHeaders, h1, h2]

/-- **C19.headers_keep_order** — the caller's header list survives as a contiguous, unchanged
block (order and duplicates kept). -/
theorem headers_keep_order (hs : List Header) (u : URL) (c : Content) :
    ∃ pre post, includeRequestHeaders hs u c = pre ++ hs ++ post := by
  obtain ⟨added, h1, _⟩ := framing_header_only_if_missing hs u c
  rw [h1, host_header_only_if_missing]
  by_cases h : hasHeader (ascii "host") hs = true
  · exact ⟨[], added, by simp [h]⟩
  · exact ⟨[(ascii "Host", hostHeaderValue u)], added, by simp [h]⟩

/-- **C19.enforce_ascii_iff** — text is accepted iff every code point is ASCII, and is then passed
through unchanged. -/
theorem enforce_ascii_iff (cps : List Nat) :
    (∃ b, enforceText cps = some b) ↔ (∀ x ∈ cps, x < 128) := by
  unfold enforceText
  by_cases h : cps.all (· < 128) = true
  · simp only [h, if_true]
    constructor
    · intro _; simpa [List.all_eq_true] using h
    · intro _; exact ⟨cps, rfl⟩
  · simp only [h]
    constructor
    · rintro ⟨b, hb⟩; simp at hb
    · intro hall; exact absurd (by simpa [List.all_eq_true] using hall) h

/-! ### non-vacuity -/

def sample : Comp :=
  { scheme := ascii "HTTPs", userinfo := some (ascii "u:p"), host := ascii "fe80::A1", ipv6 := true,
    port := some (ascii "0443"), path := ascii "/a/./b;p=1", query := some (ascii "x=1;y"),
    fragment := some (ascii "f#") }

example : sample.render = ascii "HTTPs://u:p@[fe80::A1]:0443/a/./b;p=1?x=1;y#f#" := by decide
example : parseOk sample.render = some ⟨ascii "https", ascii "fe80::a1", some 443, ascii "/a/./b;p=1?x=1;y"⟩ := by
  decide

end Httpcore.C19
