import HttpcoreModel.Props.C08Global
import HttpcoreModel.Props.C04
import HttpcoreModel.Props.C05
import HttpcoreModel.Props.C01
import HttpcoreModel.Props.C09
/-!
# C08 — The synchronous pool is thread-safe

Threads interleave at every instruction, but everything the pool does to its own lists happens under one lock
(`pool_mutations_locked`, regenerated from the source), and a connection's ACTIVE gate is taken under its state lock; what
other threads can still change between two reads of a pass are the *status bits* of connections. The theorems therefore
quantify over (a) every interleaving of the atomic actions of `Sys`, (b) every adversarial answer to every status read
inside a pass.
-/
namespace Httpcore.C08
open Httpcore Httpcore.Pool

/-- **C08.pool_mutations_locked** — every statement that mutates `_connections` / `_requests` or runs the assignment pass is
inside `with self._optional_thread_lock:` (or inside the pass, all of whose call sites are). -/
theorem pool_mutations_locked : ∀ m ∈ Gen.poolMutations, m.2.2 = true := by decide

/-- **C08.establishment_single** — in each of the three connection classes that establish lazily (direct, SOCKS, CONNECT tunnel) the
"already established?" test is made with the connect lock held (regenerated): of several threads that share a connection that is
not established yet, exactly one establishes it; the others find it established (or failed) when they get the lock. -/
theorem establishment_single : ∀ r ∈ Gen.establishChecks, r.2 = true := by decide

/-- **C08.reader_rechecks_under_lock** (also C12) - the HTTP/2 reader decides "nothing has been filed for my stream, read the
network" *inside* the read lock, and reads the network nowhere else: a thread / task that waited for the lock while another one read
and filed its frames sees them, instead of reading again and waiting for bytes that have already arrived (Tie A, regenerated). -/
theorem reader_rechecks_under_lock : Gen.h2EventsRecheckedUnderReadLock = true := by decide

/-- **C08.writer_takes_and_writes_under_lock** (also C03, C12) - h2's outgoing buffer is emptied and its content written inside one
hold of the write lock, and nowhere else: two threads / tasks cannot put their frames on the wire in another order than the one in
which h2 produced them (the peer's HPACK decoder and its stream state machine depend on that order).  Tie A, regenerated. -/
theorem writer_takes_and_writes_under_lock : Gen.h2BufferWrittenUnderWriteLock = true := by decide

example : Gen.establishChecks.length = 3 := by decide

/-- **C08.limit_under_threads** — the connection limit holds after a pass even if every status bit a pass reads
(closed / expired / idle / available) is answered adversarially at every single read, i.e. whatever other threads do to the
connections meanwhile (re-export of C04). -/
theorem limit_under_threads (cfg : Cfg) (s : State) (ds1 : List D1) (origins : List Nat) (ds2 : List D2)
    (h : s.conns.length ≤ cfg.maxConn) : (passAdv cfg s ds1 origins ds2).conns.length ≤ cfg.maxConn :=
  C04.pass_bound_adversarial cfg s ds1 origins ds2 h

/-- **C08.exclusive_use_all_interleavings** — for every interleaving of callers' atomic steps, at most one caller is inside an
exchange on a connection (re-export of C01 over `Sys`, whose `run` ranges over all action sequences). -/
theorem exclusive_use_all_interleavings (as : List Sys.Action) (h : ∀ a ∈ as, Sys.Admissible a) (c t1 t2 : Nat)
    (h1 : ((Sys.run C05.current Sys.init as).tasks t1).pc = .io c ∨ ((Sys.run C05.current Sys.init as).tasks t1).pc = .closing c)
    (h2 : ((Sys.run C05.current Sys.init as).tasks t2).pc = .io c ∨ ((Sys.run C05.current Sys.init as).tasks t2).pc = .closing c) :
    t1 = t2 := C01.exclusive_use as h c t1 t2 h1 h2

/-- **C08.close_marks_closed_first** — the lock-free `close()` of an HTTP/1.1 connection marks it CLOSED before it touches the
socket (regenerated from the source). The gate runs under the state lock but `close()` does not: this order is what makes a
thread that reaches the gate after another thread began closing get ConnectionNotAvailable (and a fresh connection) instead of
a socket that is being closed under it. -/
theorem close_marks_closed_first : Gen.h1CloseMarksClosedFirst = true := by decide

/-- **C08.retire_only_unassigned** — a pass closes a connection as surplus or as abandoned, or evicts one to make room, only if no request
has been handed that connection (`reserved` = the connections assigned before the pass plus those assigned in it): a thread
that has been given an idle connection and has not started on it yet cannot have it closed under it by another thread's pass.
(Expired connections are still closed; the request then finds CLOSED at the gate - `close_marks_closed_first`.) -/
theorem retire_only_unassigned (cfg : Cfg) (hfix : cfg.countIdleOnly = true) (res : List Nat) (s : State) (r : Req) :
    (∀ e ∈ (cleanup cfg res s.conns s.conns []).2, e.2 ≠ .expired → isReserved res e.1 = false) ∧
    ((assignOne cfg s r).1.closing = s.closing ∨
      ∃ i, (assignOne cfg s r).1.closing = s.closing ++ [(i, .room)] ∧ isReserved s.reserved i = false) := by
  constructor
  · intro e he hne
    rcases C09.close_reasons cfg hfix res s e he with h | ⟨k, _, _, h3, _⟩ | ⟨_, _, h3⟩
    · exact absurd h.1 hne
    · exact h3
    · exact h3
  · rcases C09.eviction_reason cfg s r with h | ⟨i, h1, _, _, h4, _⟩
    · exact Or.inl h
    · exact Or.inr ⟨i, h1, h4⟩

/-- a request that is handed an available connection reserves it for the rest of the pass -/
theorem assignment_reserves (cfg : Cfg) (hp : cfg.protectAssigned = true) (s : State) (r : Req) (c : Conn) (tl : List Conn)
    (hav : s.conns.filter (fun c => c.origin == r.origin && c.available) = c :: tl) :
    isReserved (assignOne cfg s r).1.reserved c = true := by
  simp [assignOne, hav, hp, isReserved]

/-- the current source protects assigned connections (regenerated) -/
theorem source_protects_assigned : Gen.poolProtectsAssigned = true := by decide

def demoCfg (protect : Bool) : Cfg :=
  { maxConn := 1, maxKeepalive := 1, newAvail := fun _ => false, countIdleOnly := true, protectAssigned := protect }
def demoState : State :=
  { conns := [{ id := 0, origin := 0, closed := false, expired := false, idle := true, available := true }],
    reqs := [{ id := 0, origin := 0, conn := none }, { id := 1, origin := 1, conn := none }], closing := [], nextId := 1 }

/-- **finding F-C08-a (1.0.7 behaviour; repaired)** — one pass hands the idle connection 0 to the waiting request 0 *and*
evicts that very connection to make room for request 1. In the async pool the first request then finds the connection
closed and is re-assigned; with threads it could already be sending on it when the evicting thread closed it. -/
theorem pass_assigns_and_evicts_same_connection_107 :
    (pass (demoCfg false) demoState).reqs.head?.bind (·.conn) = some 0 ∧
    ((pass (demoCfg false) demoState).closing.map (·.1.id)) = [0] := by decide

/-- the same pass with the repaired rule: request 0 gets connection 0, nothing is closed, request 1 waits its turn -/
theorem pass_keeps_assigned_connection :
    (pass (demoCfg true) demoState).reqs.map (·.conn) = [some 0, none] ∧ (pass (demoCfg true) demoState).closing = [] := by decide

end Httpcore.C08
