import HttpcoreModel.Props.Life
import HttpcoreModel.Props.C02
import HttpcoreModel.Props.C02Chunked
import HttpcoreModel.Props.C05
import HttpcoreModel.Props.C12
/-!
# C01 — Each response belongs to its own request (no cross-talk, no desync)

Three layers, each for all inputs / histories of its model:
* bytes: on a kept-alive HTTP/1.1 connection the second exchange reads exactly the second response, whatever part of it the
  first exchange's reads already pulled in (`h1_no_desync`);
* ownership: in every reachable state of the pool/connection transition system at most one caller uses a connection, and a
  connection in use is never idle, so it is never offered to anybody else (`exclusive_use`, `in_use_not_idle`);
* HTTP/2: a stream receives exactly its own events (`C12.own_stream_only`, re-exported).
-/
namespace Httpcore.C01
open Httpcore Httpcore.H1 Httpcore.C02

/-- an exchange read on a connection that stays open: Content-Length framing, any segmentation -/
theorem h1_exchange_open (ri : ReqInfo) (raw body rest : Bytes) (h : Head)
    (hg : HeadGives ri raw h (.cl body.length)) (segs : List Bytes)
    (hs : segs.flatten = raw ++ (body ++ rest)) :
    (readOpen ri segs).1 = { head := some h, bodyRev := body.reverse, outcome := .complete } ∧
    (readOpen ri segs).2.1 = .done ∧ (readOpen ri segs).2.2 = rest := by
  rw [h1_segmentation_open, hs]
  simp only [readOpen, Extractor.feedAll, List.foldl_cons, List.foldl_nil, Extractor.feed,
    List.nil_append]
  rw [(reader ri).drain_some _ _ _ _ _ (hg (body ++ rest)), drain_cl]
  simp [observe, absorb, observe_data, settle]

/-- **C01.h1_no_desync** — two exchanges in a row on one kept-alive connection. The server sends `raw1 ++ body1` and then
`raw2 ++ body2`. The first exchange's reads (`segsA`) may already contain a prefix `pre2` of the second response; what the
reader has left over is handed to the second exchange (h11 `start_next_cycle` keeps its buffer), which reads on (`segsB`).
For every such split and every segmentation: the first caller gets exactly (h1, body1), the leftover is exactly `pre2`, and the
second caller gets exactly (h2, body2) - no byte of one response reaches the other caller. -/
theorem h1_no_desync (ri1 ri2 : ReqInfo) (raw1 body1 raw2 body2 pre2 : Bytes) (h1 h2 : Head)
    (hg1 : HeadGives ri1 raw1 h1 (.cl body1.length)) (hg2 : HeadGives ri2 raw2 h2 (.cl body2.length))
    (segsA segsB : List Bytes)
    (hA : segsA.flatten = raw1 ++ (body1 ++ pre2))
    (hB : pre2 ++ segsB.flatten = raw2 ++ body2) :
    (readOpen ri1 segsA).1 = { head := some h1, bodyRev := body1.reverse, outcome := .complete } ∧
    (readOpen ri1 segsA).2.2 = pre2 ∧
    (readOpen ri2 ((readOpen ri1 segsA).2.2 :: segsB)).1 = { head := some h2, bodyRev := body2.reverse, outcome := .complete } ∧
    (readOpen ri2 ((readOpen ri1 segsA).2.2 :: segsB)).2.2 = [] := by
  obtain ⟨e1, _, e3⟩ := h1_exchange_open ri1 raw1 body1 pre2 h1 hg1 segsA hA
  refine ⟨e1, e3, ?_⟩
  rw [e3]
  have hflat : (pre2 :: segsB).flatten = raw2 ++ (body2 ++ []) := by simpa using hB
  obtain ⟨f1, _, f3⟩ := h1_exchange_open ri2 raw2 body2 [] h2 hg2 (pre2 :: segsB) hflat
  exact ⟨f1, f3⟩


/-! ## any mix of framings -/

/-- "this wire image is read as (h, body)": for every continuation and every segmentation the reader delivers exactly
`h` and `body`, complete, and leaves exactly the continuation unread -/
def Delivers (ri : ReqInfo) (wire : Bytes) (h : Head) (body : Bytes) : Prop :=
  ∀ (rest : Bytes) (segs : List Bytes), segs.flatten = wire ++ rest →
    (readOpen ri segs).1 = { head := some h, bodyRev := body.reverse, outcome := .complete } ∧
    (readOpen ri segs).2.2 = rest

theorem delivers_content_length (ri : ReqInfo) (raw body : Bytes) (h : Head)
    (hg : HeadGives ri raw h (.cl body.length)) : Delivers ri (raw ++ body) h body := by
  intro rest segs hs
  obtain ⟨e1, _, e3⟩ := h1_exchange_open ri raw body rest h hg segs (by simpa using hs)
  exact ⟨e1, e3⟩

theorem delivers_chunked (ri : ReqInfo) (raw : Bytes) (chunks : List Bytes) (h : Head)
    (hg : HeadGives ri raw h .chunkSize) (hsz : ∀ c ∈ chunks, (H1W.hexLower c.length).length ≤ 20) :
    Delivers ri (raw ++ H1W.writeChunked chunks) h chunks.flatten := by
  intro rest segs hs
  obtain ⟨e1, _, e3⟩ := h1_body_chunked ri raw rest chunks h hg hsz segs (by simpa using hs)
  exact ⟨e1, e3⟩

/-- **C01.no_desync** — two exchanges in a row on one kept-alive connection, each response framed by Content-Length or
chunked encoding in any combination (`Delivers`, established by the two lemmas above): whatever prefix `pre2` of the second
response the first exchange's reads already pulled in, and however the bytes are cut into reads, the first caller gets
exactly (h1, body1), the reader keeps exactly `pre2`, and the second caller - starting from that leftover - gets exactly
(h2, body2) with nothing left over. -/
theorem no_desync (ri1 ri2 : ReqInfo) (w1 w2 body1 body2 pre2 : Bytes) (h1 h2 : Head)
    (d1 : Delivers ri1 w1 h1 body1) (d2 : Delivers ri2 w2 h2 body2) (segsA segsB : List Bytes)
    (hA : segsA.flatten = w1 ++ pre2) (hB : pre2 ++ segsB.flatten = w2) :
    (readOpen ri1 segsA).1 = { head := some h1, bodyRev := body1.reverse, outcome := .complete } ∧
    (readOpen ri1 segsA).2.2 = pre2 ∧
    (readOpen ri2 ((readOpen ri1 segsA).2.2 :: segsB)).1 = { head := some h2, bodyRev := body2.reverse, outcome := .complete } ∧
    (readOpen ri2 ((readOpen ri1 segsA).2.2 :: segsB)).2.2 = [] := by
  obtain ⟨e1, e2⟩ := d1 pre2 segsA hA
  refine ⟨e1, e2, ?_⟩
  rw [e2]
  exact d2 [] (pre2 :: segsB) (by simpa using hB)

/-- the connection goes back to IDLE only if both sides are DONE, is available only when IDLE, and becomes ACTIVE only from
NEW or IDLE under the state lock (all three regenerated from the source) -/
theorem h1_reuse_rule : Gen.h1ReuseNeedsBothDone = true ∧ Gen.h1AvailableIffIdle = true ∧ Gen.h1GateFromNewOrIdleOnly = true := by
  decide

/-- the gate's test-and-set runs inside the connection's state lock (regenerated): between threads of the synchronous pool it
is one atomic step, which is what `Sys`'s `gate` action and `exclusive_use` assume -/
theorem h1_gate_atomic : Gen.h1GateUnderStateLock = true := by decide

/-- **C01.h2_broken_connection_not_offered** — an HTTP/2 connection on which an exchange went wrong at the connection level
(`_connection_error`: a write failed, h2 rejected a header block part-way through HPACK encoding, the peer violated the
protocol), whose stream ids are used up, or which is closed on either level, is not offered to any further request - for every
combination of the four flags (the expression is regenerated from `is_available`). -/
theorem h2_broken_connection_not_offered (closed connErr usedAll h2Closed : Bool) :
    Gen.h2Available closed connErr usedAll h2Closed = true →
      closed = false ∧ connErr = false ∧ usedAll = false ∧ h2Closed = false := by
  cases closed <;> cases connErr <;> cases usedAll <;> cases h2Closed <;> decide

/-- and a healthy one is (non-vacuity) -/
example : Gen.h2Available false false false false = true := by decide

/-! ## ownership (transition system `Sys`, every reachable state) -/
open Httpcore.Sys

/-- **C01.exclusive_use** — in every reachable state, two callers are never inside an exchange (sending/receiving or closing
the response) on the same connection. -/
theorem exclusive_use (as : List Action) (h : ∀ a ∈ as, Admissible a) (c t1 t2 : Nat)
    (h1 : ((run C05.current init as).tasks t1).pc = .io c ∨ ((run C05.current init as).tasks t1).pc = .closing c)
    (h2 : ((run C05.current init as).tasks t2).pc = .io c ∨ ((run C05.current init as).tasks t2).pc = .closing c) :
    t1 = t2 := by
  have inv := C05.inv_reachable as h
  have o1 : ((run C05.current init as).conns c).owner = some t1 := by
    rcases h1 with h1 | h1
    · exact (inv.io_owner c t1 h1).1
    · exact (inv.closing_owner c t1 h1).1
  have o2 : ((run C05.current init as).conns c).owner = some t2 := by
    rcases h2 with h2 | h2
    · exact (inv.io_owner c t2 h2).1
    · exact (inv.closing_owner c t2 h2).1
  rw [o1] at o2
  exact Option.some.inj o2

/-- **C01.in_use_not_idle** — a connection on which an exchange is under way is never IDLE, hence (`is_available() == IDLE`)
never offered to another request; it becomes IDLE again only through `closed` after an exchange that finished with both sides
done (`io … ok keepAlive`), and is closed otherwise. -/
theorem in_use_not_idle (as : List Action) (h : ∀ a ∈ as, Admissible a) (c t : Nat)
    (hp : ((run C05.current init as).tasks t).pc = .io c ∨ ((run C05.current init as).tasks t).pc = .closing c) :
    ((run C05.current init as).conns c).status ≠ .idle := by
  have inv := C05.inv_reachable as h
  rcases hp with hp | hp
  · have := (inv.io_owner c t hp).2
    rw [this]; decide
  · rcases (inv.closing_owner c t hp).2 with h1 | h1 <;> rw [h1] <;> decide

/-- an exchange that did not finish on both sides leaves the connection closed, never idle -/
theorem unfinished_exchange_closes (s : State) (t c : Nat) (o : Sys.Outcome) (ka : Bool)
    (hp : (s.tasks t).pc = .io c) (hbad : ¬ (o = .ok ∧ ka = true)) :
    ((step C05.current s (.io t o ka)).conns c).status = .closed := by
  simp only [step, hp]
  split
  · rename_i hx; exact absurd hx hbad
  · simp

/-- HTTP/2: a stream's queue receives exactly the events carrying its id (re-export of C12) -/
theorem h2_own_stream_only {α} (reg : List Nat) (evs : List (Nat × α)) (s : Nat) :
    H2.routeAll reg (fun _ => []) evs s = if s ∈ reg then (evs.filter (fun e => e.1 = s)).map (·.2) else [] :=
  C12.own_stream_only reg evs s

end Httpcore.C01
