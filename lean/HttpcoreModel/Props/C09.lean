import HttpcoreModel.Props.Life
import HttpcoreModel.Pool
import HttpcoreModel.Generated
/-!
# C09 — Keep-alive reuse, limits and expiry (pool-pass theorems)

All theorems are about one assignment pass with a consistent view of the connections' status and
pairwise distinct connections (`Nodup`), for every configuration.
-/
namespace Httpcore.C09
open Httpcore.Pool

def idleCount (l : List Conn) : Nat := (l.filter (·.idle)).length

theorem idleCount_erase_le (l : List Conn) (c : Conn) : idleCount (l.erase c) ≤ idleCount l := by
  unfold idleCount
  exact (List.Sublist.filter _ (List.erase_sublist)).length_le

theorem idleCount_le_surplus (cfg : Cfg) (l : List Conn) : idleCount l ≤ surplusCount cfg l := by
  unfold idleCount surplusCount
  split
  · exact Nat.le_refl _
  · exact List.length_filter_le _ _

theorem surplus_erase_le (cfg : Cfg) (l : List Conn) (c : Conn) :
    surplusCount cfg (l.erase c) ≤ surplusCount cfg l := by
  unfold surplusCount
  split
  · exact idleCount_erase_le l c
  · rw [List.length_erase]; split <;> omega

/-- loop invariant of the house-keeping loop -/
def Inv (cfg : Cfg) (snap cur : List Conn) : Prop :=
  (∀ x ∈ cur, x.idle = true → x ∈ snap) ∨ surplusCount cfg cur ≤ cfg.maxKeepalive

theorem cleanup_idle (cfg : Cfg) (snap cur : List Conn) (closing : List (Conn × Reason))
    (hnd : cur.Nodup) (hinv : Inv cfg snap cur) :
    idleCount (cleanup cfg [] snap cur closing).1 ≤ cfg.maxKeepalive := by
  induction snap generalizing cur closing with
  | nil =>
    simp only [cleanup]
    rcases hinv with h | h
    · have : cur.filter (·.idle) = [] := by
        rw [List.filter_eq_nil_iff]
        intro x hx hi
        exact absurd (h x hx hi) (by simp)
      simp [idleCount, this]
    · exact Nat.le_trans (idleCount_le_surplus cfg cur) h
  | cons c rest ih =>
    have hrem : Inv cfg rest (cur.erase c) := by
      rcases hinv with h | h
      · left
        intro x hx hi
        have hx' : x ∈ cur := List.mem_of_mem_erase hx
        have hne : x ≠ c := by
          intro heq; subst heq
          exact (List.Nodup.not_mem_erase hnd) hx
        have := h x hx' hi
        simp only [List.mem_cons] at this
        rcases this with rfl | h2
        · exact absurd rfl hne
        · exact h2
      · right; exact Nat.le_trans (surplus_erase_le cfg cur c) h
    have hnd' : (cur.erase c).Nodup := hnd.erase c
    simp only [cleanup]
    split
    · exact ih _ _ hnd' hrem
    · split
      · exact ih _ _ hnd' hrem
      · split
        · exact ih _ _ hnd' hrem
        · rename_i hcond
          split
          · exact ih _ _ hnd' hrem
          · apply ih _ _ hnd
            by_cases hi : c.idle = true
            · right
              simp only [hi, isReserved, List.contains_nil, Bool.not_false, Bool.and_self, Bool.true_and, decide_eq_true_eq,
                Nat.not_lt] at hcond
              exact hcond
            · rcases hinv with h | h
              · left
                intro x hx hxi
                have := h x hx hxi
                simp only [List.mem_cons] at this
                rcases this with rfl | h2
                · exact absurd hxi hi
                · exact h2
              · right; exact h

theorem assignOne_idle (cfg : Cfg) (s : State) (r : Req) :
    idleCount (assignOne cfg s r).1.conns ≤ idleCount s.conns := by
  simp only [assignOne]
  split
  · exact Nat.le_refl _
  · split
    · simp [idleCount, List.filter_append, fresh]
    · split
      · rename_i i _ _
        have := idleCount_erase_le s.conns i
        simp only [idleCount, List.filter_append, List.length_append] at this ⊢
        simp [fresh]
        exact this
      · exact Nat.le_refl _

theorem assignAll_idle (cfg : Cfg) (s : State) (rs done : List Req) :
    idleCount (assignAll cfg s rs done).conns ≤ idleCount s.conns := by
  induction rs generalizing s done with
  | nil => simp [assignAll]
  | cons r rest ih =>
    simp only [assignAll]
    split
    · exact ih s _
    · exact Nat.le_trans (ih _ _) (assignOne_idle cfg s r)

/-- **C09.idle_bound** — once a pass completes with no request left between "handed a connection" and "started on it"
(always the case for sequential use, the property's quantifier), idle connections never outnumber the keep-alive limit
(`min(max_connections, max_keepalive_connections)`, including 0), whatever the mix of idle / active / closed / expired
connections and queued requests. (An idle connection that a concurrent request has just been handed is exempt until that
request starts: closing it would fail or re-queue the request, finding F-C08-a.) -/
theorem idle_bound (cfg : Cfg) (s : State) (hnd : s.conns.Nodup) (hnone : ∀ r ∈ s.reqs, r.conn = none) :
    idleCount (pass cfg s).conns ≤ cfg.maxKeepalive := by
  have hres : (if cfg.protectAssigned then s.reqs.filterMap (·.conn) else []) = [] := by
    split
    · rw [List.filterMap_eq_nil_iff]
      intro r hr; exact hnone r hr
    · rfl
  simp only [pass, hres]
  refine Nat.le_trans (assignAll_idle cfg _ _ _) ?_
  exact cleanup_idle cfg s.conns s.conns [] hnd (Or.inl (fun x hx _ => hx))

theorem cleanup_removes (cfg : Cfg) (res : List Nat) (snap cur : List Conn) (closing : List (Conn × Reason))
    (hnd : cur.Nodup) :
    ∀ x ∈ (cleanup cfg res snap cur closing).1, x ∈ cur ∧ (x ∈ snap → x.closed = false ∧ x.expired = false) := by
  induction snap generalizing cur closing with
  | nil => intro x hx; exact ⟨by simpa [cleanup] using hx, by simp⟩
  | cons c rest ih =>
    intro x hx
    simp only [cleanup] at hx
    have hnd' : (cur.erase c).Nodup := hnd.erase c
    have rem : ∀ cl, x ∈ (cleanup cfg res rest (cur.erase c) cl).1 →
        x ∈ cur ∧ (x ∈ c :: rest → x.closed = false ∧ x.expired = false) := by
      intro cl hx'
      obtain ⟨h1, h2⟩ := ih (cur.erase c) cl hnd' x hx'
      refine ⟨List.mem_of_mem_erase h1, ?_⟩
      intro hm
      simp only [List.mem_cons] at hm
      rcases hm with rfl | hm
      · exact absurd h1 (List.Nodup.not_mem_erase hnd)
      · exact h2 hm
    split at hx
    · exact rem _ hx
    · split at hx
      · exact rem _ hx
      · split at hx
        · exact rem _ hx
        · split at hx
          · exact rem _ hx
          · rename_i hc he _ _
            obtain ⟨h1, h2⟩ := ih cur closing hnd x hx
            refine ⟨h1, ?_⟩
            intro hm
            simp only [List.mem_cons] at hm
            rcases hm with rfl | hm
            · exact ⟨by simpa using hc, by simpa using he⟩
            · exact h2 hm

/-- **C09.never_hand_out_expired (a)** — after the house-keeping loop no connection that
reported closed or expired is left in the pool (so none can be assigned by the second loop). -/
theorem no_expired_left (cfg : Cfg) (res : List Nat) (s : State) (hnd : s.conns.Nodup) :
    ∀ x ∈ (cleanup cfg res s.conns s.conns []).1, x.closed = false ∧ x.expired = false := by
  intro x hx
  obtain ⟨h1, h2⟩ := cleanup_removes cfg res s.conns s.conns [] hnd x hx
  exact h2 h1

theorem assignOne_assigns (cfg : Cfg) (s : State) (r : Req) (cid : Nat)
    (h : (assignOne cfg s r).2.conn = some cid) (hr : r.conn = none) :
    (∃ c ∈ s.conns, c.id = cid ∧ c.available = true ∧ c.origin = r.origin) ∨ cid = s.nextId := by
  simp only [assignOne] at h
  split at h
  · rename_i c tl hav
    left
    have hm : c ∈ s.conns.filter (fun c => c.origin == r.origin && c.available) := by rw [hav]; simp
    obtain ⟨hm1, hm2⟩ := List.mem_filter.mp hm
    simp only [Bool.and_eq_true, beq_iff_eq] at hm2
    simp only [Option.some.injEq] at h
    exact ⟨c, hm1, h, hm2.2, hm2.1⟩
  · split at h
    · right; simpa [fresh] using h.symm
    · split at h
      · right; simpa [fresh] using h.symm
      · simp [hr] at h

/-- **C09.never_hand_out_expired (b)** / **C09.reuse** — a queued request is given either an
existing pooled connection that is available for exactly its origin, or a brand-new connection; and
when such an available connection exists it gets the first one and nothing is created. -/
theorem assigned_is_available_or_new (cfg : Cfg) (s : State) (r : Req) (cid : Nat)
    (h : (assignOne cfg s r).2.conn = some cid) (hr : r.conn = none) :
    (∃ c ∈ s.conns, c.id = cid ∧ c.available = true ∧ c.origin = r.origin) ∨ cid = s.nextId :=
  assignOne_assigns cfg s r cid h hr

theorem reuse_first_available (cfg : Cfg) (s : State) (r : Req) (c : Conn) (tl : List Conn)
    (hav : s.conns.filter (fun c => c.origin == r.origin && c.available) = c :: tl) :
    (assignOne cfg s r).2 = { r with conn := some c.id } ∧ (assignOne cfg s r).1.conns = s.conns ∧
    (assignOne cfg s r).1.closing = s.closing ∧ (assignOne cfg s r).1.nextId = s.nextId := by
  simp [assignOne, hav]

theorem cleanup_closing (cfg : Cfg) (res : List Nat) (snap cur : List Conn) (closing : List (Conn × Reason))
    (P : Conn × Reason → Prop) (hold : ∀ e ∈ closing, P e)
    (hexp : ∀ c, c.expired = true → P (c, .expired))
    (hsur : ∀ c k, c.idle = true → isReserved res c = false →
      (∀ l : List Conn, surplusCount cfg l > cfg.maxKeepalive → idleCount l = k → P (c, .surplus k)))
    (habn : ∀ c, cfg.reclaimAbandoned = true → c.idle = false → isReserved res c = false → P (c, .abandoned)) :
    ∀ e ∈ (cleanup cfg res snap cur closing).2, P e := by
  induction snap generalizing cur closing with
  | nil => simpa [cleanup] using hold
  | cons c rest ih =>
    simp only [cleanup]
    split
    · exact ih _ _ hold
    · split
      · rename_i he
        apply ih
        intro e hem
        simp only [List.mem_append, List.mem_singleton] at hem
        rcases hem with h | rfl
        · exact hold e h
        · exact hexp c he
      · split
        · rename_i hcond
          simp only [Bool.and_eq_true, decide_eq_true_eq, Bool.not_eq_eq_eq_not, Bool.not_true] at hcond
          apply ih
          intro e hem
          simp only [List.mem_append, List.mem_singleton] at hem
          rcases hem with h | rfl
          · exact hold e h
          · exact hsur c _ hcond.1.1 hcond.1.2 cur hcond.2 rfl
        · split
          · rename_i hcond
            simp only [Bool.and_eq_true, Bool.not_eq_eq_eq_not, Bool.not_true] at hcond
            apply ih
            intro e hem
            simp only [List.mem_append, List.mem_singleton] at hem
            rcases hem with h | rfl
            · exact hold e h
            · exact habn c hcond.1.1 hcond.2 hcond.1.2
          · exact ih _ _ hold

/-- **C09.close_reasons** — with the surplus test counting *idle* connections (the repaired
expression; `Gen.poolCountsIdleOnly` says what the current source does), every connection the
house-keeping loop closes is expired, or idle, not handed to any request, while the idle connections outnumber the
keep-alive limit - or it is not idle at all and no request holds it (an abandoned connection: never an idle one). -/
theorem close_reasons (cfg : Cfg) (hfix : cfg.countIdleOnly = true) (res : List Nat) (s : State) :
    ∀ e ∈ (cleanup cfg res s.conns s.conns []).2,
      (e.2 = .expired ∧ e.1.expired = true) ∨
      (∃ k, e.2 = .surplus k ∧ e.1.idle = true ∧ isReserved res e.1 = false ∧ k > cfg.maxKeepalive) ∨
      (e.2 = .abandoned ∧ e.1.idle = false ∧ isReserved res e.1 = false) := by
  apply cleanup_closing cfg res s.conns s.conns []
    (fun e => (e.2 = .expired ∧ e.1.expired = true) ∨
      (∃ k, e.2 = .surplus k ∧ e.1.idle = true ∧ isReserved res e.1 = false ∧ k > cfg.maxKeepalive) ∨
      (e.2 = .abandoned ∧ e.1.idle = false ∧ isReserved res e.1 = false)) (by simp)
  · intro c he; left; exact ⟨rfl, he⟩
  · intro c k hi hr l hl hk
    right; left
    refine ⟨k, rfl, hi, hr, ?_⟩
    simp only [surplusCount, hfix, if_true] at hl
    simp only [idleCount] at hk
    omega
  · intro c _ hi hr
    right; right
    exact ⟨rfl, hi, hr⟩

/-- **C09.idle_closed_only_for_reason** — in particular an *idle* connection is closed by the house-keeping loop only because
it expired or because the idle connections outnumber the keep-alive limit. -/
theorem idle_closed_only_for_reason (cfg : Cfg) (hfix : cfg.countIdleOnly = true) (res : List Nat) (s : State) :
    ∀ e ∈ (cleanup cfg res s.conns s.conns []).2, e.1.idle = true →
      (e.2 = .expired ∧ e.1.expired = true) ∨ (∃ k, e.2 = .surplus k ∧ k > cfg.maxKeepalive) := by
  intro e he hi
  rcases close_reasons cfg hfix res s e he with h | ⟨k, h1, _, _, h4⟩ | ⟨_, h2, _⟩
  · exact Or.inl h
  · exact Or.inr ⟨k, h1, h4⟩
  · rw [hi] at h2; cases h2

/-- the second loop closes a connection only to make room at the connection limit, and only an
idle one that no request has been handed -/
theorem eviction_reason (cfg : Cfg) (s : State) (r : Req) :
    (assignOne cfg s r).1.closing = s.closing ∨
    (∃ i, (assignOne cfg s r).1.closing = s.closing ++ [(i, .room)] ∧ i ∈ s.conns ∧ i.idle = true ∧
      isReserved s.reserved i = false ∧
      ¬ s.conns.length < cfg.maxConn ∧
      s.conns.filter (fun c => c.origin == r.origin && c.available) = []) := by
  simp only [assignOne]
  split
  · left; rfl
  · rename_i hav
    split
    · left; rfl
    · rename_i hfull
      split
      · rename_i i tl hi
        right
        have hm : i ∈ s.conns.filter (fun c => c.idle && !(isReserved s.reserved c)) := by rw [hi]; simp
        obtain ⟨hm1, hm2⟩ := List.mem_filter.mp hm
        simp only [Bool.and_eq_true, Bool.not_eq_eq_eq_not, Bool.not_true] at hm2
        exact ⟨i, rfl, hm1, hm2.1, hm2.2, hfull, hav⟩
      · left; rfl

/-- the repaired surplus expression is what the current source contains -/
theorem source_counts_idle_only : Gen.poolCountsIdleOnly = true := by decide

/-- with the 1.0.7 expression (count of *all* connections) the full statement fails: keep-alive
limit 1, two active connections and one idle one — the idle connection is closed although only one
connection is idle. -/
theorem close_reasons_counterexample_107 :
    let cfg : Cfg := { maxConn := 3, maxKeepalive := 1, newAvail := fun _ => false, countIdleOnly := false, protectAssigned := false }
    (cleanup cfg [] [Conn.mk 0 0 false false false false, Conn.mk 1 0 false false false false,
                  Conn.mk 2 1 false false true true]
      [Conn.mk 0 0 false false false false, Conn.mk 1 0 false false false false,
       Conn.mk 2 1 false false true true] []).2
      = [(Conn.mk 2 1 false false true true, .surplus 1)] := by decide

end Httpcore.C09

namespace Httpcore.C09
open Httpcore.Pool Httpcore.ConnLife Httpcore.LifeProps

/-- **in_use_survives_housekeeping** (C09 with C12) - composition of the pool-pass theorem with the life-cycle theorem: an HTTP/2
connection on which a request has been accepted and not finished (after *any* history of life-cycle operations, at *any* clock
reading), and which the pool holds for a request in its queue, is not among the connections the house-keeping loop closes -
whatever the rest of the pool looks like.  (`close_reasons` alone leaves the door "expired" open; `h2_in_use_never_expires`
closes it.) -/
theorem in_use_survives_housekeeping (cfg : Cfg) (hfix : cfg.countIdleOnly = true) (res : List Nat) (s : State)
    (ka : Option Nat) (ops : List Op2) (now id origin : Nat)
    (hu : (run2 (init2 ka) ops).inUse) (hc : (run2 (init2 ka) ops).c.st ≠ .closed)
    (hres : isReserved res (view2 now id origin (run2 (init2 ka) ops).c) = true) :
    ∀ e ∈ (cleanup cfg res s.conns s.conns []).2, e.1 ≠ view2 now id origin (run2 (init2 ka) ops).c := by
  intro e he heq
  obtain ⟨h1, h2, _⟩ := h2_in_use_view ka ops now id origin hu hc
  rcases close_reasons cfg hfix res s e he with ⟨_, h⟩ | ⟨k, _, h, _, _⟩ | ⟨_, _, h⟩
  · rw [heq, h1] at h; cases h
  · rw [heq, h2] at h; cases h
  · rw [heq, hres] at h; cases h

/-- the same for an HTTP/1.1 connection with an exchange open: whatever the clock says and although the response bytes make its
socket readable, the house-keeping loop does not close it while the pool holds it for a request -/
theorem in_use_h1_survives_housekeeping (cfg : Cfg) (hfix : cfg.countIdleOnly = true) (res : List Nat) (s : State)
    (ka : Option Nat) (ops : List Op1) (now : Nat) (readable : Bool) (id origin : Nat)
    (ha : (run1 (init1 ka) ops).c.st = .active)
    (hres : isReserved res (view1 now readable id origin (run1 (init1 ka) ops).c) = true) :
    ∀ e ∈ (cleanup cfg res s.conns s.conns []).2, e.1 ≠ view1 now readable id origin (run1 (init1 ka) ops).c := by
  intro e he heq
  obtain ⟨h1, h2, _, _⟩ := h1_in_use_view ka ops now readable id origin ha
  rcases close_reasons cfg hfix res s e he with ⟨_, h⟩ | ⟨k, _, h, _, _⟩ | ⟨_, _, h⟩
  · rw [heq, h1] at h; cases h
  · rw [heq, h2] at h; cases h
  · rw [heq, hres] at h; cases h

/-- ... and it is not evicted to make room either (only idle connections are) -/
theorem in_use_not_evicted (cfg : Cfg) (s : State) (r : Req) (ka : Option Nat) (ops : List Op2) (now id origin : Nat)
    (hu : (run2 (init2 ka) ops).inUse) (hc : (run2 (init2 ka) ops).c.st ≠ .closed) :
    ∀ i, (assignOne cfg s r).1.closing = s.closing ++ [(i, .room)] → i ≠ view2 now id origin (run2 (init2 ka) ops).c := by
  intro i hi heq
  obtain ⟨_, h2, _⟩ := h2_in_use_view ka ops now id origin hu hc
  rcases eviction_reason cfg s r with h | ⟨j, hj, _, hidle, _⟩
  · rw [h] at hi
    have := congrArg List.length hi
    simp at this
  · rw [hj] at hi
    have : j = i := by
      have := List.append_cancel_left hi
      simpa using this
    subst this
    rw [heq, h2] at hidle; cases hidle

end Httpcore.C09

namespace Httpcore.C09
open Httpcore.Pool Httpcore.ConnLife Httpcore.LifeProps

/-- the configuration the current source implements, read off the regenerated flags -/
def srcCfg (maxConn maxKeepalive : Nat) (newAvail : Nat → Bool) : Cfg :=
  { maxConn := maxConn, maxKeepalive := maxKeepalive, newAvail := newAvail, countIdleOnly := Gen.poolCountsIdleOnly,
    protectAssigned := Gen.poolProtectsAssigned, reclaimAbandoned := Gen.poolReclaimsAbandoned }

/-- **cleanup_follows_source** - Tie A, literally: one iteration of the model's house-keeping loop does to a connection exactly what
the *translated* `if / elif` chain of the source (`Gen.poolCleanupDecision`, regenerated on every run) decides - which branch takes
it, whether it is removed, whether it is handed to `_close_connections` - for every connection, every reservation list and every
pool content. -/
theorem cleanup_follows_source (mc mk : Nat) (na : Nat → Bool) (res : List Nat) (c : Conn) (rest cur : List Conn)
    (closing : List (Conn × Reason)) :
    let cfg := srcCfg mc mk na
    let d := Gen.poolCleanupDecision c.closed c.expired c.idle (isReserved res c) (cur.filter (·.idle)).length cur.length mk
    cleanup cfg res (c :: rest) cur closing =
      (if d.1 = 4 then cleanup cfg res rest cur closing
       else if d.2 then
         cleanup cfg res rest (cur.erase c) (closing ++ [(c, if d.1 = 1 then .expired else if d.1 = 2 then .surplus (cur.filter (·.idle)).length else .abandoned)])
       else cleanup cfg res rest (cur.erase c) closing) := by
  have f1 : Gen.poolCountsIdleOnly = true := by decide
  have f2 : Gen.poolProtectsAssigned = true := by decide
  have f3 : Gen.poolReclaimsAbandoned = true := by decide
  simp only [srcCfg, f1, f3, cleanup, Gen.poolCleanupDecision, surplusCount, if_true]
  cases c.closed <;> cases c.expired <;> cases c.idle <;> cases isReserved res c <;>
    by_cases hk : (cur.filter (·.idle)).length > mk <;> simp [hk]

/-- **assign_follows_source** - the same for the assignment loop: for one queued request the model reuses / creates / evicts-and-creates /
leaves waiting exactly as the translated chain `Gen.poolAssignDecision` says, for every pool content. -/
theorem assign_follows_source (cfg : Cfg) (s : State) (r : Req) :
    let avail := s.conns.filter (fun c => c.origin == r.origin && c.available)
    let idles := s.conns.filter (fun c => c.idle && !(isReserved s.reserved c))
    let d := Gen.poolAssignDecision (!avail.isEmpty) (!idles.isEmpty) s.conns.length cfg.maxConn
    (d.1 = 0 → ∃ c, avail.head? = some c ∧ (assignOne cfg s r).2.conn = some c.id ∧ (assignOne cfg s r).1.conns = s.conns) ∧
    (d.1 = 1 → (assignOne cfg s r).2.conn = some s.nextId ∧ (assignOne cfg s r).1.conns = s.conns ++ [fresh cfg s.nextId r.origin] ∧
               (assignOne cfg s r).1.closing = s.closing) ∧
    (d.1 = 2 → ∃ i, idles.head? = some i ∧ (assignOne cfg s r).2.conn = some s.nextId ∧
               (assignOne cfg s r).1.conns = (s.conns.erase i) ++ [fresh cfg s.nextId r.origin] ∧
               (assignOne cfg s r).1.closing = s.closing ++ [(i, .room)]) ∧
    (d.1 = 3 → assignOne cfg s r = (s, r)) := by
  intro avail idles d
  simp only [d, Gen.poolAssignDecision, assignOne]
  cases ha : s.conns.filter (fun c => c.origin == r.origin && c.available) with
  | cons c tl => simp [avail, ha, fresh]
  | nil =>
    by_cases hl : s.conns.length < cfg.maxConn
    · simp [avail, ha, hl, fresh]
    · cases hi : s.conns.filter (fun c => c.idle && !(isReserved s.reserved c)) with
      | cons i tl => simp [avail, idles, ha, hl, hi, fresh]
      | nil => simp [avail, idles, ha, hl, hi]

/-- **dead_idle_h1_closed_by_pass** (C09: "a connection whose keep-alive expiry has elapsed, or an idle HTTP/1.1 connection the server
has already closed, is never handed to a request but closed") - composition: for an HTTP/1.1 connection object in *any* reachable
state that is IDLE, if its socket is readable (the server has closed it) or the clock is beyond the moment it went idle plus
`keepalive_expiry`, the house-keeping loop of the next pass removes it from the pool and hands it to `_close_connections` with reason
"expired" - before the assignment loop looks at any connection. -/
theorem dead_idle_h1_closed_by_pass (cfg : Cfg) (res : List Nat) (ka : Option Nat) (ops : List Op1) (now : Nat) (readable : Bool)
    (id origin : Nat) (rest cur : List Conn) (closing : List (Conn × Reason))
    (hidle : (run1 (init1 ka) ops).c.st = .idle)
    (hdead : readable = true ∨ ∃ t k, (run1 (init1 ka) ops).idleSince = some t ∧ (run1 (init1 ka) ops).c.ka = some k ∧ now > t + k) :
    let v := view1 now readable id origin (run1 (init1 ka) ops).c
    cleanup cfg res (v :: rest) cur closing = cleanup cfg res rest (cur.erase v) (closing ++ [(v, .expired)]) := by
  intro v
  obtain ⟨t0, ht0, hexp⟩ := h1_expiry_exact ka ops now readable hidle
  have hclosed : v.closed = false := by simp [v, view1, Gen.h1IsClosed, hidle]
  have hexpired : v.expired = true := by
    show Gen.h1HasExpired (run1 (init1 ka) ops).c now readable = true
    rw [hexp]
    rcases hdead with h | ⟨t, k, h1, h2, h3⟩
    · simp [h]
    · rw [ht0] at h1
      cases h1
      simp [h2, h3]
  simp [cleanup, hclosed, hexpired]

/-- the same for an idle HTTP/2 connection whose keep-alive expiry has elapsed (HTTP/2 has no "socket readable" rule) -/
theorem expired_idle_h2_closed_by_pass (cfg : Cfg) (res : List Nat) (ka : Option Nat) (ops : List Op2) (now id origin : Nat)
    (rest cur : List Conn) (closing : List (Conn × Reason))
    (hidle : (run2 (init2 ka) ops).c.st = .idle)
    (hdead : ∃ t k, (run2 (init2 ka) ops).idleSince = some t ∧ (run2 (init2 ka) ops).c.ka = some k ∧ now > t + k) :
    let v := view2 now id origin (run2 (init2 ka) ops).c
    cleanup cfg res (v :: rest) cur closing = cleanup cfg res rest (cur.erase v) (closing ++ [(v, .expired)]) := by
  intro v
  have hexp := h2_expiry_exact ka ops now hidle
  obtain ⟨t, k, h1, h2, h3⟩ := hdead
  have hclosed : v.closed = false := by simp [v, view2, Gen.h2IsClosed, hidle]
  have hexpired : v.expired = true := by
    show Gen.h2HasExpired (run2 (init2 ka) ops).c now = true
    rw [hexp, h1, h2]
    simp [h3]
  simp [cleanup, hclosed, hexpired]

/-- ... and an idle connection that is *not* dead (clock within the expiry, socket quiet) is not closed as expired: the keep-alive
window is honoured exactly -/
theorem live_idle_h1_not_expired (ka : Option Nat) (ops : List Op1) (now id origin : Nat)
    (hidle : (run1 (init1 ka) ops).c.st = .idle)
    (hlive : ∀ t k, (run1 (init1 ka) ops).idleSince = some t → (run1 (init1 ka) ops).c.ka = some k → now ≤ t + k) :
    (view1 now false id origin (run1 (init1 ka) ops).c).expired = false := by
  obtain ⟨t0, ht0, hexp⟩ := h1_expiry_exact ka ops now false hidle
  show Gen.h1HasExpired (run1 (init1 ka) ops).c now false = false
  rw [hexp]
  cases hk : (run1 (init1 ka) ops).c.ka with
  | none => simp
  | some k =>
    have := hlive t0 k ht0 hk
    simp; omega

end Httpcore.C09
