import HttpcoreModel.Props.Life
import HttpcoreModel.Props.Wrap
import HttpcoreModel.Sys.Inv
import HttpcoreModel.Generated
/-!
# C05 — Failed and cancelled requests give their pool slot back (theorems about `Sys`)

Quantifiers: any number of callers and connections (indices are arbitrary naturals), every finite
sequence of actions — i.e. every interleaving, every fault position (`Outcome.fail` at any parked
operation) and every scope-cancellation point (`Outcome.cancel`, `waitCancel`).
-/
namespace Httpcore.C05
open Httpcore.Sys

/-- the repaired behaviour that the current source has (see `Fixes`) -/
def current : Fixes := { closeNew := true, closeOnTlsCancel := true }

theorem inv_init : Sys.Inv init := Sys.inv_init

theorem inv_step (s : State) (h : Sys.Inv s) (a : Action) (ha : Admissible a) : Sys.Inv (step current s a) :=
  Sys.inv_step current rfl rfl s h a ha

/-- **C05.inv_reachable** — the invariant holds in every state reachable by admissible actions. -/
theorem inv_reachable (as : List Action) (h : ∀ a ∈ as, Admissible a) : Sys.Inv (run current init as) := by
  suffices hs : ∀ s, Sys.Inv s → Sys.Inv (run current s as) from hs init inv_init
  induction as with
  | nil => intro s hs; exact hs
  | cons a rest ih =>
    intro s hs
    simp only [run, List.foldl_cons]
    exact ih (fun b hb => h b (by simp [hb])) _ (inv_step s hs a (h a (by simp)))

def live (pc : PC) : Prop := pc ≠ .notStarted ∧ pc ≠ .done

/-- **C05.no_orphan_request** — in every reachable state a request that the pool still counts
belongs to a caller that is still running (so "once the caller has let go of it the pool no longer
counts the request"). -/
theorem no_orphan_request (as : List Action) (h : ∀ a ∈ as, Admissible a) (t : Nat)
    (hc : ((run current init as).tasks t).counted = true) : live ((run current init as).tasks t).pc :=
  (inv_reachable as h).orphan t hc

/-- **C05.no_limbo_connection** — in every reachable state a pooled connection is idle (reusable,
can expire, can be evicted), closed / failed (removed by the next pass), or a caller that is still
running is heading for it or inside it. -/
theorem no_limbo_connection (as : List Action) (h : ∀ a ∈ as, Admissible a) (c : Nat)
    (hp : ((run current init as).conns c).inPool = true) :
    let s := run current init as
    (s.conns c).status = .idle ∨ (s.conns c).status = .closed ∨ (s.conns c).status = .failed ∨
      ∃ t, live (s.tasks t).pc ∧ heading (s.tasks t).pc = some c := by
  intro s
  have inv := inv_reachable as h
  cases hst : (s.conns c).status with
  | idle => left; rfl
  | closed => right; left; rfl
  | failed => right; right; left; rfl
  | absent => exact absurd hp (by rw [(inv.st_absent c hst).2]; simp)
  | fresh =>
    right; right; right
    have hn := inv.need c (by rw [hst]; rfl)
    obtain ⟨t, ht⟩ := Option.ne_none_iff_exists'.mp hn
    have := inv.st_fresh c t hst ht
    exact ⟨t, by rw [this]; simp [live], by rw [this]; rfl⟩
  | connecting =>
    right; right; right
    have hn := inv.need c (by rw [hst]; rfl)
    obtain ⟨t, ht⟩ := Option.ne_none_iff_exists'.mp hn
    rcases inv.st_conn c t hst ht with ⟨h1, _⟩ | h1
    · exact ⟨t, by rw [h1]; simp [live], by rw [h1]; rfl⟩
    · exact ⟨t, by rw [h1]; simp [live], by rw [h1]; rfl⟩
  | new =>
    right; right; right
    have hn := inv.need c (by rw [hst]; rfl)
    obtain ⟨t, ht⟩ := Option.ne_none_iff_exists'.mp hn
    have := inv.st_new c t hst ht
    exact ⟨t, by rw [this]; simp [live], by rw [this]; rfl⟩
  | active =>
    right; right; right
    have hn := inv.need c (by rw [hst]; rfl)
    obtain ⟨t, ht⟩ := Option.ne_none_iff_exists'.mp hn
    rcases inv.st_active c t hst ht with h1 | h1
    · exact ⟨t, by rw [h1]; simp [live], by rw [h1]; rfl⟩
    · exact ⟨t, by rw [h1]; simp [live], by rw [h1]; rfl⟩

/-- **C05.quiescent_capacity** — when no caller is running any more, every pooled connection is
idle, closed or failed: each slot can be reused, evicted or dropped by the next pass, so the pool's
full capacity is available to later requests. -/
theorem quiescent_capacity (as : List Action) (h : ∀ a ∈ as, Admissible a)
    (hq : ∀ t, ¬ live ((run current init as).tasks t).pc) (c : Nat)
    (hp : ((run current init as).conns c).inPool = true) :
    let s := run current init as
    (s.conns c).status = .idle ∨ (s.conns c).status = .closed ∨ (s.conns c).status = .failed := by
  intro s
  rcases no_limbo_connection as h c hp with h1 | h1 | h1 | ⟨t, ht, _⟩
  · exact Or.inl h1
  · exact Or.inr (Or.inl h1)
  · exact Or.inr (Or.inr h1)
  · exact absurd ht (hq t)

/-- the excluded window is real (known finding F-C05-f): a cancellation / pool time-out delivered
between the assignment of a new connection and the caller starting on it leaves the connection
`fresh` ("CONNECTING") in the pool with nobody heading for it -/
theorem limbo_counterexample_assigned :
    let s := run current init [.arrive 0, .assignNew 0 0, .cancelAssigned 0, .finish 0]
    (s.conns 0).inPool = true ∧ (s.conns 0).status = .fresh ∧ (s.tasks 0).pc = .done := by
  decide

/-- 1.0.7 behaviour (`closeNew = false`): cancelling the caller at the HTTP/1.1 state lock leaves the
connection NEW in the pool for ever (finding F-C05-a, repaired) -/
theorem limbo_counterexample_107 :
    let s := run { closeNew := false, closeOnTlsCancel := true } init
      [.arrive 0, .assignNew 0 0, .start 0, .tcp 0 .ok, .tls 0 .ok, .gate 0 .cancel, .finish 0]
    (s.conns 0).inPool = true ∧ (s.conns 0).status = .new ∧ (s.tasks 0).pc = .done := by
  decide

/-! non-vacuity: a run with a fault, a cancellation and a reuse satisfies the hypotheses -/
example : ∀ a ∈ [Action.arrive 0, .assignNew 0 0, .start 0, .tcp 0 .ok, .tls 0 .ok, .gate 0 .ok, .io 0 .ok true,
    .closed 0, .finish 0, .arrive 1, .assignIdle 1 0, .start 1, .gate 1 .ok, .io 1 .fail false, .closed 1, .finish 1],
    Admissible a := by
  intro a ha; simp at ha; rcases ha with rfl | rfl | rfl | rfl | rfl | rfl | rfl | rfl | rfl | rfl | rfl | rfl | rfl | rfl | rfl | rfl <;> trivial

end Httpcore.C05
