import HttpcoreModel.Props.C02HeadSpelled
import HttpcoreModel.Props.C02Head
import HttpcoreModel.Props.C02H2
import HttpcoreModel.H1Obs
/-!
# C02 — Responses are delivered byte-exact, independent of network segmentation

Property theorems about the reader model (`H1Read`, `H1Obs`).  `segmentation` holds for *every*
byte stream (well-formed or not) and every way of cutting it.
-/
namespace Httpcore.C02
open Httpcore Httpcore.H1

/-- **C02.h1_segmentation** — however the transport splits the server's byte stream into reads
(one byte at a time, inside CRLF, inside chunk-size lines, …) the caller observes the same status,
reason, version, headers, body bytes and outcome as if the stream had arrived in one read; and the
reader ends in the same state with the same unconsumed bytes. For every request kind, every byte
stream and every segmentation. -/
theorem h1_segmentation (ri : ReqInfo) (segs : List Bytes) :
    readAll ri segs = readAll ri [segs.flatten] := by
  have h0 : (reader ri).extract .head [] = none := rfl
  have h1 := (reader ri).segmentation_independent [] .head [] segs h0
  have h2 := (reader ri).segmentation_independent [] .head [] [segs.flatten] h0
  simp only [readAll, h1, h2, List.flatten_cons, List.flatten_nil, List.append_nil]

/-- the same while the connection stays open (no end of file yet) -/
theorem h1_segmentation_open (ri : ReqInfo) (segs : List Bytes) :
    readOpen ri segs = readOpen ri [segs.flatten] := by
  have h0 : (reader ri).extract .head [] = none := rfl
  have h1 := (reader ri).segmentation_independent [] .head [] segs h0
  have h2 := (reader ri).segmentation_independent [] .head [] [segs.flatten] h0
  simp only [readOpen, h1, h2, List.flatten_cons, List.flatten_nil, List.append_nil]

/-! ### interim responses -/

theorem parseHead_info_iff (raw : Bytes) (isInfo : Bool) (h : Head)
    (hp : parseHead raw = .ok isInfo h) : isInfo = decide (h.status < 200) ∧ 100 ≤ h.status := by
  unfold parseHead at hp
  simp only at hp
  split at hp
  · cases hp
  · split at hp
    · cases hp
    · split at hp
      · cases hp
      · split at hp
        · cases hp
        · split at hp
          · cases hp
          · split at hp
            · cases hp
            · rename_i hst
              simp only [HeadResult.ok.injEq] at hp
              obtain ⟨h1, h2⟩ := hp
              subst h2
              simp only at hst ⊢
              exact ⟨h1.symm, by omega⟩

/-- every head the reader hands out as a *response* event is final (status ≥ 200), and every
`info` event is a 1xx -/
theorem extract_head_status (ri : ReqInfo) (s : St) (b : Bytes) (e : Ev) (s' : St) (r : Bytes)
    (hx : extract ri s b = some (e, s', r)) :
    (∀ h, e = .response h → 200 ≤ h.status) ∧ (∀ h, e = .info h → h.status < 200) := by
  cases s with
  | head =>
    cases b with
    | nil => simp [extract, extractHead] at hx
    | cons c t =>
      simp only [extract, extractHead] at hx
      split at hx
      · simp at hx; obtain ⟨rfl, _, _⟩ := hx; simp
      · split at hx
        · simp at hx
        · rename_i raw rest _
          split at hx
          · simp at hx; obtain ⟨rfl, _, _⟩ := hx; simp
          · rename_i h hp
            have := parseHead_info_iff raw true h hp
            simp at this
            split at hx
            · split at hx
              · simp at hx; obtain ⟨rfl, _, _⟩ := hx; simp; omega
              · simp at hx; obtain ⟨rfl, _, _⟩ := hx; simp
            · simp at hx; obtain ⟨rfl, _, _⟩ := hx; simp; omega
          · rename_i h hp
            have := parseHead_info_iff raw false h hp
            simp at this
            simp at hx; obtain ⟨rfl, _, _⟩ := hx; simp; omega
  | cl n =>
    cases n <;> cases b <;> simp [extract] at hx <;> (obtain ⟨rfl, _, _⟩ := hx; simp)
  | chunkSize =>
    simp only [extract, extractChunkSize] at hx
    split at hx
    · simp at hx
    · split at hx <;> (simp at hx; obtain ⟨rfl, _, _⟩ := hx; simp)
  | chunkData n =>
    cases n <;> cases b <;> simp [extract] at hx <;> (obtain ⟨rfl, _, _⟩ := hx; simp)
  | chunkDiscard n =>
    cases n <;> cases b <;> simp [extract] at hx <;> (obtain ⟨rfl, _, _⟩ := hx; simp)
  | trailers =>
    simp only [extract] at hx
    unfold extractTrailers at hx
    split at hx
    · simp at hx
    · simp at hx; obtain ⟨rfl, _, _⟩ := hx; simp
    · split at hx
      · simp at hx; obtain ⟨rfl, _, _⟩ := hx; simp
      · split at hx
        · simp at hx
        · split at hx <;> (simp at hx; obtain ⟨rfl, _, _⟩ := hx; simp)
  | untilClose => cases b <;> simp [extract] at hx <;> (obtain ⟨rfl, _, _⟩ := hx; simp)
  | done => simp [extract] at hx
  | switched => simp [extract] at hx
  | failed => simp [extract] at hx

def EvOk (e : Ev) : Prop :=
  (∀ h, e = .response h → 200 ≤ h.status) ∧ (∀ h, e = .info h → h.status < 200)

theorem drain_events_ok (ri : ReqInfo) (s : St) (b : Bytes) :
    ∀ e ∈ ((reader ri).drain s b).1, EvOk e := by
  induction s, b using Extractor.drain.induct (reader ri) with
  | case1 s b h => rw [(reader ri).drain_none s b h]; simp
  | case2 s b e s' r h _ ih =>
    rw [(reader ri).drain_some s b e s' r h]
    intro e' he'
    simp only [List.mem_cons] at he'
    rcases he' with rfl | he'
    · exact extract_head_status ri s b e' s' r h
    · exact ih e' he'

theorem observe_head_ok (evs : List Ev) (o : Obs) (ho : ∀ h, o.head = some h → 200 ≤ h.status ∨ h.status = 101)
    (hev : ∀ e ∈ evs, EvOk e) :
    ∀ h, (evs.foldl absorb o).head = some h → 200 ≤ h.status ∨ h.status = 101 := by
  induction evs generalizing o with
  | nil => simpa using ho
  | cons e rest ih =>
    simp only [List.foldl_cons]
    apply ih
    · intro h hh
      cases e with
      | info h' =>
        simp only [absorb] at hh
        split at hh
        · simp at hh; subst hh; right; assumption
        · exact ho h hh
      | response h' =>
        simp only [absorb] at hh
        simp at hh
        left; rw [← hh]; exact (hev (.response h') (by simp)).1 h' rfl
      | data b => exact ho h (by simpa [absorb] using hh)
      | skip => exact ho h (by simpa [absorb] using hh)
      | eom => exact ho h (by simpa [absorb] using hh)
      | fail e =>
        simp only [absorb] at hh
        split at hh <;> exact ho h (by simpa using hh)
    · intro e' he'; exact hev e' (by simp [he'])

/-- **C02.h1_interim_skipped** — whatever the server sends and however it is cut, the response
handed to the caller is never an interim 1xx response (other than 101 Switching Protocols, which
is the answer to an upgrade request). -/
theorem h1_interim_skipped (ri : ReqInfo) (segs : List Bytes) (h : Head)
    (hh : (readAll ri segs).1.head = some h) : 200 ≤ h.status ∨ h.status = 101 := by
  rw [h1_segmentation] at hh
  simp only [readAll, Extractor.feedAll, List.foldl_cons, List.foldl_nil, Extractor.feed,
    List.nil_append] at hh
  have hev := drain_events_ok ri .head segs.flatten
  have hobs := observe_head_ok ((reader ri).drain .head segs.flatten).1 {} (by simp) hev h
  apply hobs
  unfold atEof at hh
  unfold observe at hh
  split at hh
  · split at hh <;> simpa using hh
  · exact hh

/-! ### body framing: Content-Length, until-close, truncation -/

/-- draining `body ++ rest` in state `cl body.length` yields exactly the body bytes then
end-of-message, leaving `rest` untouched -/
theorem drain_cl (ri : ReqInfo) (body rest : Bytes) :
    (reader ri).drain (.cl body.length) (body ++ rest) =
      (body.map Ev.data ++ [.eom], .done, rest) := by
  induction body with
  | nil =>
    have h1 : (reader ri).extract (.cl 0) rest = some (.eom, .done, rest) := rfl
    have h2 : (reader ri).extract .done rest = none := rfl
    simp [(reader ri).drain_some _ _ _ _ _ h1, (reader ri).drain_none _ _ h2]
  | cons b t ih =>
    have h1 : (reader ri).extract (.cl (t.length + 1)) (b :: (t ++ rest)) =
        some (.data b, .cl t.length, t ++ rest) := rfl
    simp only [List.length_cons, List.cons_append]
    rw [(reader ri).drain_some _ _ _ _ _ h1, ih]
    simp

/-- a Content-Length body cut short: only the bytes that arrived are produced, and the reader
is left waiting for the missing ones (so end of file raises, see `h1_truncation_cl`) -/
theorem drain_cl_short (ri : ReqInfo) (got : Bytes) (missing : Nat) :
    (reader ri).drain (.cl (got.length + (missing + 1))) got =
      (got.map Ev.data, .cl (missing + 1), []) := by
  induction got with
  | nil =>
    have h1 : (reader ri).extract (.cl (missing + 1)) [] = none := by
      simp [reader, extract]
    simp only [List.length_nil, Nat.zero_add, List.map_nil]
    exact (reader ri).drain_none _ _ h1
  | cons b t ih =>
    have h1 : (reader ri).extract (.cl ((t.length + 1) + (missing + 1))) (b :: t) =
        some (.data b, .cl (t.length + (missing + 1)), t) := by
      have : t.length + 1 + (missing + 1) = (t.length + (missing + 1)) + 1 := by omega
      simp [reader, this, extract]
    simp only [List.length_cons]
    rw [(reader ri).drain_some _ _ _ _ _ h1, ih]
    simp

theorem drain_untilClose (ri : ReqInfo) (body : Bytes) :
    (reader ri).drain .untilClose body = (body.map Ev.data, .untilClose, []) := by
  induction body with
  | nil =>
    have h1 : (reader ri).extract .untilClose [] = none := rfl
    simp [(reader ri).drain_none _ _ h1]
  | cons b t ih =>
    have h1 : (reader ri).extract .untilClose (b :: t) = some (.data b, .untilClose, t) := rfl
    rw [(reader ri).drain_some _ _ _ _ _ h1, ih]
    simp

theorem observe_data (o : Obs) (body : Bytes) :
    (body.map Ev.data).foldl absorb o = { o with bodyRev := body.reverse ++ o.bodyRev } :=
  foldl_absorb_data o body

/-- the reader's position right after a final response head `raw` that announces a
Content-Length of `n` (for a request that is not HEAD/CONNECT and a status that has a body) -/
def HeadGives (ri : ReqInfo) (raw : Bytes) (h : Head) (s : St) : Prop :=
  ∀ tail, (reader ri).extract .head (raw ++ tail) = some (.response h, s, tail)

/-- **C02.h1_body_content_length** — for every response head that selects Content-Length
framing with length `body.length`, every body and every way of cutting head ++ body into reads:
the caller gets that head and exactly `body`, complete; bytes after the body are left unread. -/
theorem h1_body_content_length (ri : ReqInfo) (raw body rest : Bytes) (h : Head)
    (hg : HeadGives ri raw h (.cl body.length)) (segs : List Bytes)
    (hs : segs.flatten = raw ++ (body ++ rest)) :
    (readAll ri segs).1 = { head := some h, bodyRev := body.reverse, outcome := .complete } ∧
    (readAll ri segs).2.2 = rest := by
  rw [h1_segmentation, hs]
  simp only [readAll, Extractor.feedAll, List.foldl_cons, List.foldl_nil, Extractor.feed,
    List.nil_append]
  rw [(reader ri).drain_some _ _ _ _ _ (hg (body ++ rest)), drain_cl]
  simp [observe, absorb, observe_data, atEof]

/-- **C02.h1_truncation (Content-Length)** — if the stream ends before the announced number of
body bytes has arrived, the caller gets a protocol error — never a silently shorter body — for
every cut position and every segmentation. -/
theorem h1_truncation_cl (ri : ReqInfo) (raw got : Bytes) (missing : Nat) (h : Head)
    (hg : HeadGives ri raw h (.cl (got.length + (missing + 1)))) (segs : List Bytes)
    (hs : segs.flatten = raw ++ got) :
    (readAll ri segs).1.outcome = .error .protocol := by
  rw [h1_segmentation, hs]
  simp only [readAll, Extractor.feedAll, List.foldl_cons, List.foldl_nil, Extractor.feed,
    List.nil_append]
  rw [(reader ri).drain_some _ _ _ _ _ (hg got), drain_cl_short]
  simp [observe, absorb, observe_data, atEof]

/-- **C02.h1_truncation (head)** — a stream that ends inside the response head (no blank line
yet) gives a protocol error. -/
theorem h1_truncation_head (ri : ReqInfo) (pre : Bytes) (segs : List Bytes)
    (hs : segs.flatten = pre) (hn : (reader ri).extract .head pre = none) :
    (readAll ri segs).1.outcome = .error .protocol := by
  rw [h1_segmentation, hs]
  simp only [readAll, Extractor.feedAll, List.foldl_cons, List.foldl_nil, Extractor.feed,
    List.nil_append]
  rw [(reader ri).drain_none _ _ hn]
  simp [observe, atEof]

/-- **C02.h1_body_until_close** — close-delimited framing: every byte up to end of file is
delivered, in order, and end of file completes the response. -/
theorem h1_body_until_close (ri : ReqInfo) (raw body : Bytes) (h : Head)
    (hg : HeadGives ri raw h .untilClose) (segs : List Bytes) (hs : segs.flatten = raw ++ body) :
    (readAll ri segs).1 = { head := some h, bodyRev := body.reverse, outcome := .complete } := by
  rw [h1_segmentation, hs]
  simp only [readAll, Extractor.feedAll, List.foldl_cons, List.foldl_nil, Extractor.feed,
    List.nil_append]
  rw [(reader ri).drain_some _ _ _ _ _ (hg body), drain_untilClose]
  simp [observe, absorb, observe_data, atEof]

/-- to establish `HeadGives` it is enough to evaluate the reader on the head alone -/
theorem headGives_of_extract (ri : ReqInfo) (raw : Bytes) (h : Head) (s : St)
    (hx : (reader ri).extract .head raw = some (.response h, s, [])) : HeadGives ri raw h s := by
  intro tail
  have := (reader ri).stable .head raw (.response h) s [] tail hx
  simpa using this

/-! ### non-vacuity: concrete heads satisfy `HeadGives` -/

example : HeadGives ⟨false, false, false⟩ (ascii "HTTP/1.1 200 OK\r\nContent-Length: 5\r\nX-A:  b c \r\n\r\n")
    ⟨ascii "1.1", 200, ascii "OK", [(ascii "Content-Length", ascii "5"), (ascii "X-A", ascii "b c")]⟩
    (.cl (ascii "hello").length) :=
  headGives_of_extract _ _ _ _ (by decide)

example : HeadGives ⟨false, false, false⟩ (ascii "HTTP/1.0 404 Not Found\r\n\r\n")
    ⟨ascii "1.0", 404, ascii "Not Found", []⟩ .untilClose :=
  headGives_of_extract _ _ _ _ (by decide)

end Httpcore.C02
