import HttpcoreModel.Props.Wrap
import HttpcoreModel.Pool
/-!
# C04 — The connection limit is never exceeded (pool-pass theorems)
-/
namespace Httpcore.C04
open Httpcore.Pool

theorem erase_length_le {α} [BEq α] [LawfulBEq α] (l : List α) (a : α) : (l.erase a).length ≤ l.length := by
  rw [List.length_erase]; split <;> omega

theorem cleanupAdv_len (snap : List Conn) (ds : List D1) (cur : List Conn) (closing : List (Conn × Reason)) :
    (cleanupAdv snap ds cur closing).1.length ≤ cur.length := by
  induction snap generalizing ds cur closing with
  | nil => simp [cleanupAdv]
  | cons c rest ih =>
    cases ds with
    | nil => simp [cleanupAdv]
    | cons d ds =>
      cases d <;> simp only [cleanupAdv]
      · exact Nat.le_trans (ih ds _ _) (erase_length_le cur c)
      · exact Nat.le_trans (ih ds _ _) (erase_length_le cur c)
      · exact ih ds _ _

theorem assignOneAdv_len (cfg : Cfg) (s : State) (o : Nat) (d : D2) (h : s.conns.length ≤ cfg.maxConn) :
    (assignOneAdv cfg s o d).conns.length ≤ cfg.maxConn := by
  cases d with
  | reuse c => simpa [assignOneAdv] using h
  | noneAvail idle =>
    simp only [assignOneAdv]
    split
    · simp; omega
    · cases idle with
      | none => simpa using h
      | some i =>
        simp only
        split
        · rename_i hi
          simp [List.length_erase_of_mem hi]
          have : 0 < s.conns.length := List.length_pos_of_mem hi
          omega
        · exact h

theorem assignAllAdv_len (cfg : Cfg) (s : State) (os : List Nat) (ds : List D2)
    (h : s.conns.length ≤ cfg.maxConn) : (assignAllAdv cfg s os ds).conns.length ≤ cfg.maxConn := by
  induction os generalizing s ds with
  | nil => simpa [assignAllAdv] using h
  | cons o os ih =>
    cases ds with
    | nil => simpa [assignAllAdv] using h
    | cons d ds => exact ih _ ds (assignOneAdv_len cfg s o d h)

/-- **C04.pass_bound (adversarial)** — one assignment pass never takes the pool above its
connection limit, *whatever* the connections answer to each individual status read (closed /
expired / idle / available may change between any two reads, as under threads), for every limit,
every number of queued requests and every mix of origins. -/
theorem pass_bound_adversarial (cfg : Cfg) (s : State) (ds1 : List D1) (origins : List Nat)
    (ds2 : List D2) (h : s.conns.length ≤ cfg.maxConn) :
    (passAdv cfg s ds1 origins ds2).conns.length ≤ cfg.maxConn := by
  simp only [passAdv]
  apply assignAllAdv_len
  exact Nat.le_trans (cleanupAdv_len s.conns ds1 s.conns []) h

theorem cleanup_len (cfg : Cfg) (res : List Nat) (snap cur : List Conn) (closing : List (Conn × Reason)) :
    (cleanup cfg res snap cur closing).1.length ≤ cur.length := by
  induction snap generalizing cur closing with
  | nil => simp [cleanup]
  | cons c rest ih =>
    simp only [cleanup]
    split
    · exact Nat.le_trans (ih _ _) (erase_length_le cur c)
    · split
      · exact Nat.le_trans (ih _ _) (erase_length_le cur c)
      · split
        · exact Nat.le_trans (ih _ _) (erase_length_le cur c)
        · split
          · exact Nat.le_trans (ih _ _) (erase_length_le cur c)
          · exact ih _ _

theorem assignOne_len (cfg : Cfg) (s : State) (r : Req) (h : s.conns.length ≤ cfg.maxConn) :
    (assignOne cfg s r).1.conns.length ≤ cfg.maxConn := by
  simp only [assignOne]
  split
  · exact h
  · split
    · simp; omega
    · split
      · rename_i i _ hi
        have hmem : i ∈ s.conns := by
          have : i ∈ s.conns.filter (fun c => c.idle && !(isReserved s.reserved c)) := by rw [hi]; simp
          exact (List.mem_filter.mp this).1
        simp [List.length_erase_of_mem hmem]
        have : 0 < s.conns.length := List.length_pos_of_mem hmem
        omega
      · exact h

theorem assignAll_len (cfg : Cfg) (s : State) (rs done : List Req) (h : s.conns.length ≤ cfg.maxConn) :
    (assignAll cfg s rs done).conns.length ≤ cfg.maxConn := by
  induction rs generalizing s done with
  | nil => simpa [assignAll] using h
  | cons r rest ih =>
    simp only [assignAll]
    split
    · exact ih s _ h
    · exact ih _ _ (assignOne_len cfg s r h)

/-- **C04.pass_bound** — the same for the pass as the single-threaded (async) pool executes it. -/
theorem pass_bound (cfg : Cfg) (s : State) (h : s.conns.length ≤ cfg.maxConn) :
    (pass cfg s).conns.length ≤ cfg.maxConn := by
  simp only [pass]
  apply assignAll_len
  exact Nat.le_trans (cleanup_len cfg _ s.conns s.conns []) h

/-- **C04.wait_not_open** — a queued request that finds the pool at its limit with no available
connection for its origin and no idle connection that is not spoken for stays queued, and no connection is created. -/
theorem wait_not_open (cfg : Cfg) (s : State) (r : Req)
    (hfull : ¬ s.conns.length < cfg.maxConn)
    (hav : s.conns.filter (fun c => c.origin == r.origin && c.available) = [])
    (hidle : s.conns.filter (fun c => c.idle && !(isReserved s.reserved c)) = []) :
    assignOne cfg s r = (s, r) := by
  simp [assignOne, hav, hidle, hfull]

/-- a connection is created only when there is room, or an idle one is evicted first -/
theorem create_only_with_room (cfg : Cfg) (s : State) (r : Req)
    (hgrow : s.conns.length < (assignOne cfg s r).1.conns.length) : s.conns.length < cfg.maxConn := by
  simp only [assignOne] at hgrow
  split at hgrow
  · simp at hgrow
  · split at hgrow
    · assumption
    · split at hgrow
      · rename_i i _ hi
        have hmem : i ∈ s.conns := by
          have : i ∈ s.conns.filter (fun c => c.idle && !(isReserved s.reserved c)) := by rw [hi]; simp
          exact (List.mem_filter.mp this).1
        simp [List.length_erase_of_mem hmem] at hgrow
        have : 0 < s.conns.length := List.length_pos_of_mem hmem
        omega
      · simp at hgrow

/-! non-vacuity: a full pool of two with three waiters stays at two -/
def cfg2 : Cfg := { maxConn := 2, maxKeepalive := 2, newAvail := fun _ => false, countIdleOnly := false, protectAssigned := false }
def s2 : State :=
  { conns := [Conn.mk 0 7 false false false false],
    reqs := [Req.mk 0 1 none, Req.mk 1 2 none, Req.mk 2 3 none], closing := [], nextId := 1 }
example : (pass cfg2 s2).conns.length = 2 ∧ ((pass cfg2 s2).reqs.filter (·.conn.isNone)).length = 2 := by decide

end Httpcore.C04
