import HttpcoreModel.Generated
import HttpcoreModel.Pool
/-!
# The wrappers around a protocol connection, as the pool sees them (used by C04, C05, C07)

`AsyncHTTPConnection`, `AsyncSocks5Connection` and `AsyncTunnelHTTPConnection` answer the pool's four questions either themselves
(while nothing is established) or by asking the HTTP/1.1 / HTTP/2 connection inside.  The functions `Gen.wrap*` are translated from
the source on every run; the theorems quantify over all values of the flags and of the inner connection's answers.
-/
namespace Httpcore.Wrap
open Httpcore

/-- **failed_establishment_is_dropped** (C04, C05) - a direct or SOCKS connection whose establishment has failed and that holds no
protocol connection calls itself closed and is not available: the pool's next pass removes it from its list (first branch of the
house-keeping loop) and never hands it to a request. -/
theorem failed_establishment_is_dropped (connected http1 http2 https ia ie ii ic : Bool) :
    Gen.wrapDirectIsClosed false true connected http1 http2 https ia ie ii ic = true ∧
    Gen.wrapDirectIsAvailable false true connected http1 http2 https ia ie ii ic = false ∧
    Gen.wrapSocksIsClosed false true connected http1 http2 https ia ie ii ic = true ∧
    Gen.wrapSocksIsAvailable false true connected http1 http2 https ia ie ii ic = false := by
  simp [Gen.wrapDirectIsClosed, Gen.wrapDirectIsAvailable, Gen.wrapSocksIsClosed, Gen.wrapSocksIsAvailable]

/-- **establishing_is_neither_idle_nor_expired_nor_closed** (C05, C09) - while a direct or SOCKS connection is being established
(nothing inside yet, no failure recorded) it is not idle, not expired and not closed: the only branch of the house-keeping loop
that can take it is "held by no request" - i.e. it stays exactly as long as the request that is establishing it. -/
theorem establishing_is_kept (connected http1 http2 https ia ie ii ic : Bool) :
    Gen.wrapDirectIsClosed false false connected http1 http2 https ia ie ii ic = false ∧
    Gen.wrapDirectIsIdle false false connected http1 http2 https ia ie ii ic = false ∧
    Gen.wrapDirectHasExpired false false connected http1 http2 https ia ie ii ic = false ∧
    Gen.wrapSocksIsClosed false false connected http1 http2 https ia ie ii ic = false ∧
    Gen.wrapSocksIsIdle false false connected http1 http2 https ia ie ii ic = false ∧
    Gen.wrapSocksHasExpired false false connected http1 http2 https ia ie ii ic = false := by
  simp [Gen.wrapDirectIsClosed, Gen.wrapDirectIsIdle, Gen.wrapDirectHasExpired, Gen.wrapSocksIsClosed, Gen.wrapSocksIsIdle,
    Gen.wrapSocksHasExpired]

/-- **establishing_shared_iff_h2_possible** (C07, C10) - a connection that is still being established is offered to further
requests exactly when it may turn out to be HTTP/2: HTTP/2 enabled and (TLS, where ALPN decides, or HTTP/1.1 disabled). The same
rule in all three classes. -/
theorem establishing_shared_iff_h2_possible (http1 http2 https ia ie ii : Bool) :
    Gen.wrapDirectIsAvailable false false false http1 http2 https ia ie ii false = (http2 && (https || !http1)) ∧
    Gen.wrapSocksIsAvailable false false false http1 http2 https ia ie ii false = (http2 && (https || !http1)) ∧
    Gen.wrapTunnelIsAvailable true false false http1 http2 https ia ie ii false = (http2 && (https || !http1)) := by
  simp [Gen.wrapDirectIsAvailable, Gen.wrapSocksIsAvailable, Gen.wrapTunnelIsAvailable]

/-- **established_delegates** - once a protocol connection exists (and, for a tunnel, the CONNECT has succeeded or the proxy
connection is closed) every answer is the inner connection's own: the life-cycle theorems (`Props/Life.lean`) apply unchanged. -/
theorem established_delegates (cf http1 http2 https ia ie ii ic : Bool) :
    Gen.wrapDirectIsAvailable true cf true http1 http2 https ia ie ii ic = ia ∧
    Gen.wrapDirectHasExpired true cf true http1 http2 https ia ie ii ic = ie ∧
    Gen.wrapDirectIsIdle true cf true http1 http2 https ia ie ii ic = ii ∧
    Gen.wrapDirectIsClosed true cf true http1 http2 https ia ie ii ic = ic ∧
    Gen.wrapSocksIsAvailable true cf true http1 http2 https ia ie ii ic = ia ∧
    Gen.wrapSocksHasExpired true cf true http1 http2 https ia ie ii ic = ie ∧
    Gen.wrapSocksIsIdle true cf true http1 http2 https ia ie ii ic = ii ∧
    Gen.wrapSocksIsClosed true cf true http1 http2 https ia ie ii ic = ic ∧
    Gen.wrapTunnelIsAvailable true cf true http1 http2 https ia ie ii ic = ia ∧
    Gen.wrapTunnelHasExpired true cf true http1 http2 https ia ie ii ic = ie ∧
    Gen.wrapTunnelIsIdle true cf true http1 http2 https ia ie ii ic = ii ∧
    Gen.wrapTunnelIsClosed true cf true http1 http2 https ia ie ii ic = ic := by
  simp [Gen.wrapDirectIsAvailable, Gen.wrapDirectHasExpired, Gen.wrapDirectIsIdle, Gen.wrapDirectIsClosed, Gen.wrapSocksIsAvailable,
    Gen.wrapSocksHasExpired, Gen.wrapSocksIsIdle, Gen.wrapSocksIsClosed, Gen.wrapTunnelIsAvailable, Gen.wrapTunnelHasExpired,
    Gen.wrapTunnelIsIdle, Gen.wrapTunnelIsClosed]

/-- **closed_tunnel_not_shared** (C07, F-C07-a) - a tunnel whose proxy connection has been closed is not offered as "may become
HTTP/2": it answers like the (closed) connection inside. -/
theorem closed_tunnel_not_shared (hi cf connected http1 http2 https ia ie ii : Bool) :
    Gen.wrapTunnelIsAvailable hi cf connected http1 http2 https ia ie ii true = ia := by
  simp [Gen.wrapTunnelIsAvailable]

/-- a never-available answer is never "idle to be evicted" and "available" at once for a failed connection: the pool view of a
failed wrapper goes through the *closed* branch, whatever the other predicates say -/
theorem failed_view_dropped (cfg : Pool.Cfg) (res : List Nat) (id origin : Nat) (rest cur : List Pool.Conn) (closing : List (Pool.Conn × Pool.Reason))
    (connected http1 http2 https ia ie ii ic : Bool) :
    let c : Pool.Conn := { id := id, origin := origin,
                           closed := Gen.wrapDirectIsClosed false true connected http1 http2 https ia ie ii ic,
                           expired := Gen.wrapDirectHasExpired false true connected http1 http2 https ia ie ii ic,
                           idle := Gen.wrapDirectIsIdle false true connected http1 http2 https ia ie ii ic,
                           available := Gen.wrapDirectIsAvailable false true connected http1 http2 https ia ie ii ic }
    Pool.cleanup cfg res (c :: rest) cur closing = Pool.cleanup cfg res rest (cur.erase c) closing := by
  intro c
  have hc : c.closed = true := by simp [c, Gen.wrapDirectIsClosed]
  simp [Pool.cleanup, hc]

end Httpcore.Wrap
