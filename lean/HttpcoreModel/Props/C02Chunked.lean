import HttpcoreModel.Props.C02
import HttpcoreModel.Lemmas.Chunked
/-!
# C02 / C01 — chunked framing: the reader against the canonical chunked encoding
-/
namespace Httpcore.C02
open Httpcore Httpcore.H1 Httpcore.H1W

/-- **C02.h1_body_chunked** — a response whose head selects chunked framing, followed by the canonical chunked encoding
of any list of chunks (empty ones included) and by anything else: for every way of cutting that stream into reads, the
caller gets the head and exactly the concatenation of the chunks, complete; what follows the terminating chunk is left
unread. -/
theorem h1_body_chunked (ri : ReqInfo) (raw rest : Bytes) (chunks : List Bytes) (h : Head)
    (hg : HeadGives ri raw h .chunkSize) (hsz : ∀ c ∈ chunks, (hexLower c.length).length ≤ 20)
    (segs : List Bytes) (hs : segs.flatten = raw ++ (writeChunked chunks ++ rest)) :
    (readOpen ri segs).1 = { head := some h, bodyRev := chunks.flatten.reverse, outcome := .complete } ∧
    (readOpen ri segs).2.1 = .done ∧ (readOpen ri segs).2.2 = rest := by
  rw [h1_segmentation_open, hs]
  simp only [readOpen, Extractor.feedAll, List.foldl_cons, List.foldl_nil, Extractor.feed, List.nil_append]
  rw [(reader ri).drain_some _ _ _ _ _ (hg (writeChunked chunks ++ rest))]
  obtain ⟨evs, h1, h2⟩ := drain_writeChunked_fold ri chunks rest hsz { head := some h }
  rw [h1]
  have hfold : observe (Ev.response h :: evs) = evs.foldl absorb { head := some h } := by
    simp [observe, List.foldl_cons, absorb]
  simp only [List.singleton_append, hfold, h2]
  simp [settle]

end Httpcore.C02
