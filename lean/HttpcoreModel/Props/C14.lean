import HttpcoreModel.H2
/-!
# C14 — A request is put on the wire at most once unless the server refused it
-/
namespace Httpcore.C14
open Httpcore Httpcore.H2

/-- **C14.goaway_retry_only_refused** — after a GOAWAY a request is handed back for re-sending only if its stream id is
above the last-stream-id the server named, i.e. the server declared not to have processed it (for all ids). -/
theorem goaway_retry_only_refused (sid last : Nat) (h : goawayOutcome sid last = .connectionNotAvailable) : sid > last := by
  unfold goawayOutcome at h
  split at h
  · rename_i hr
    simp [Gen.goawayRetry] at hr
    omega
  · cases h

/-- a stream at or below the last-stream-id fails towards the caller (it may have been processed) -/
theorem goaway_processed_not_retried (sid last : Nat) (h : sid ≤ last) : goawayOutcome sid last = .remoteProtocolError := by
  unfold goawayOutcome
  split
  · rename_i hr
    simp [Gen.goawayRetry] at hr
    omega
  · rfl

/-- **C14.goaway_refused_resent_partial** — a refused stream is re-sent, provided the last-stream-id is not 0.
The full statement (for every last-stream-id) is false of the code: see `goaway_last_zero_not_resent`. -/
theorem goaway_refused_resent_partial (sid last : Nat) (h : sid > last) (h0 : last ≠ 0) :
    goawayOutcome sid last = .connectionNotAvailable := by
  unfold goawayOutcome
  have : Gen.goawayRetry sid last = true := by simp [Gen.goawayRetry]; omega
  simp [this]

/-- **finding F-C14-a (proved of the regenerated expression, replayed on the implementation)** — GOAWAY with
last-stream-id 0 ("nothing was processed") refuses stream 1, yet the request is failed instead of re-sent. -/
theorem goaway_last_zero_not_resent : goawayOutcome 1 0 = .remoteProtocolError := by decide

/-- **C14.cna_sites_sound** — every place that raises ConnectionNotAvailable either precedes every statement of its
`handle_async_request` that can send request bytes, or is the GOAWAY rule above (table regenerated from the source). -/
theorem cna_sites_sound : ∀ s ∈ Gen.cnaSites, s.2.2.1 = true ∨ s.2.2.2 = true := by decide

/-- **C14.pool_retries_only_cna** — the pool sends a request again on ConnectionNotAvailable and on nothing else. -/
theorem pool_retries_only_cna : Gen.poolRetriesOn = [.ConnectionNotAvailable] := by decide

/-- what the per-connection code guarantees about one attempt (by `cna_sites_sound` and `goaway_retry_only_refused`) -/
def AttemptSound (a : Attempt) : Prop := a.result = .notAvailable → (a.wrote = false ∨ a.refused = true)

/-- attempts that put request bytes on a connection without the server refusing them -/
def exposed (as : List Attempt) : Nat := (as.filter fun a => a.wrote && !a.refused).length

/-- **C14.at_most_once** — for every sequence of attempts the connections can produce: the request is exposed to a
server (written and not refused) on at most one connection, and every attempt but the last ended in
ConnectionNotAvailable; in particular a failure after bytes were written ends the call. -/
theorem at_most_once (as : List Attempt) (h : ∀ a ∈ as, AttemptSound a) :
    exposed (attemptsUsed as) ≤ 1 ∧
    (∀ a ∈ (attemptsUsed as).dropLast, a.result = .notAvailable ∧ (a.wrote = false ∨ a.refused = true)) := by
  induction as with
  | nil => simp [attemptsUsed, exposed]
  | cons a rest ih =>
    have ih' := ih (fun x hx => h x (List.mem_cons_of_mem _ hx))
    have ha := h a (List.mem_cons_self ..)
    unfold attemptsUsed
    split
    · rename_i hna
      have hs := ha hna
      constructor
      · have : (a.wrote && !a.refused) = false := by
          rcases hs with h1 | h1 <;> simp [h1]
        simp only [exposed, List.filter_cons, this] at ih' ⊢
        exact ih'.1
      · intro x hx
        cases hrest : attemptsUsed rest with
        | nil => simp [hrest] at hx
        | cons b bs =>
          rw [hrest] at hx
          simp only [List.dropLast_cons₂, List.mem_cons] at hx
          rcases hx with rfl | hx
          · exact ⟨hna, hs⟩
          · exact ih'.2 x (by rw [hrest]; exact hx)
    · constructor
      · simp only [exposed, List.filter_cons]
        split <;> simp
      · simp

/-- a failure (anything but ConnectionNotAvailable) ends the call: no attempt follows it -/
theorem failure_ends_call (a : Attempt) (rest : List Attempt) (h : a.result ≠ .notAvailable) :
    attemptsUsed (a :: rest) = [a] := by
  simp [attemptsUsed, h]

/-! non-vacuity -/
example : attemptsUsed [⟨0, false, false, .notAvailable⟩, ⟨1, true, true, .notAvailable⟩, ⟨2, true, false, .failed⟩, ⟨3, true, false, .response⟩]
    = [⟨0, false, false, .notAvailable⟩, ⟨1, true, true, .notAvailable⟩, ⟨2, true, false, .failed⟩] := by decide
example : goawayOutcome 5 3 = .connectionNotAvailable ∧ goawayOutcome 3 3 = .remoteProtocolError := by decide

end Httpcore.C14
