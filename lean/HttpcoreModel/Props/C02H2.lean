import HttpcoreModel.H2
/-!
# C02 (HTTP/2 half) — the body is exactly the DATA the server framed, or an error
-/
namespace Httpcore.C02
open Httpcore Httpcore.H2

def dataOf : List SEv → Bytes
  | [] => []
  | .data d :: rest => d ++ dataOf rest
  | _ :: rest => dataOf rest

def hasReset (evs : List SEv) : Bool := evs.any fun e => match e with | .reset _ => true | _ => false
def hasEnded (evs : List SEv) : Bool := evs.any fun e => match e with | .ended => true | _ => false
def hasResponse (evs : List SEv) : Bool := evs.any fun e => match e with | .response _ _ => true | _ => false

theorem recvBody_complete (st : Nat) (hs : List (Bytes × Bytes)) (acc : Bytes) (evs : List SEv) (st' : Nat)
    (hs' : List (Bytes × Bytes)) (body : Bytes) (h : recvBody true st hs acc evs = .complete st' hs' body) :
    ∃ mid rest, evs = mid ++ SEv.ended :: rest ∧ hasReset mid = false ∧ hasEnded mid = false ∧
      body = acc ++ dataOf mid ∧ st' = st ∧ hs' = hs := by
  induction evs generalizing acc with
  | nil => simp [recvBody] at h
  | cons e rest ih =>
    cases e with
    | data d =>
      simp only [recvBody] at h
      obtain ⟨mid, r, h1, h2, h3, h4, h5, h6⟩ := ih _ h
      exact ⟨.data d :: mid, r, by simp [h1], by simpa [hasReset] using h2, by simpa [hasEnded] using h3,
        by simp [h4, dataOf], h5, h6⟩
    | ended =>
      simp only [recvBody, RecvOutcome.complete.injEq] at h
      obtain ⟨rfl, rfl, rfl⟩ := h
      exact ⟨[], rest, rfl, rfl, rfl, by simp [dataOf], rfl, rfl⟩
    | reset c => simp [recvBody] at h
    | response s2 h2' =>
      simp only [recvBody] at h
      obtain ⟨mid, r, h1, h2, h3, h4, h5, h6⟩ := ih _ h
      exact ⟨.response s2 h2' :: mid, r, by simp [h1], by simpa [hasReset] using h2, by simpa [hasEnded] using h3,
        by simp [h4, dataOf], h5, h6⟩

/-- **C02.h2_body_exact** — for every sequence of events queued for a stream: if the caller is handed a complete
response, the events are `pre ++ [response] ++ mid ++ [END_STREAM] ++ rest` with no reset before END_STREAM, the body is
exactly the concatenation of the DATA between the headers and END_STREAM, and status and headers are the ones of that
HEADERS frame. In particular a stream reset before END_STREAM never yields a (shorter) body. -/
theorem h2_body_exact (evs : List SEv) (st : Nat) (hs : List (Bytes × Bytes)) (body : Bytes)
    (h : recvHead true evs = .complete st hs body) :
    ∃ pre mid rest, evs = pre ++ SEv.response st hs :: (mid ++ SEv.ended :: rest) ∧
      hasReset pre = false ∧ hasResponse pre = false ∧ hasReset mid = false ∧ hasEnded mid = false ∧ body = dataOf mid := by
  induction evs with
  | nil => simp [recvHead] at h
  | cons e rest ih =>
    cases e with
    | response s2 h2' =>
      simp only [recvHead] at h
      obtain ⟨mid, r, h1, h2, h3, h4, h5, h6⟩ := recvBody_complete _ _ _ _ _ _ _ h
      subst h5; subst h6
      exact ⟨[], mid, r, by simp [h1], rfl, rfl, h2, h3, by simpa using h4⟩
    | reset c => simp [recvHead] at h
    | data d =>
      simp only [recvHead] at h
      obtain ⟨pre, mid, r, h1, h2, h3, h4, h5, h6⟩ := ih h
      exact ⟨.data d :: pre, mid, r, by simp [h1], by simpa [hasReset] using h2, by simpa [hasResponse] using h3, h4, h5, h6⟩
    | ended =>
      simp only [recvHead] at h
      obtain ⟨pre, mid, r, h1, h2, h3, h4, h5, h6⟩ := ih h
      exact ⟨.ended :: pre, mid, r, by simp [h1], by simpa [hasReset] using h2, by simpa [hasResponse] using h3, h4, h5, h6⟩

/-- **C02.h2_truncation** — events that stop before END_STREAM never give a complete response: the caller keeps
reading (and gets the connection's error when it ends) or fails on the reset. -/
theorem h2_truncation (evs : List SEv) (hne : hasEnded evs = false) :
    recvHead true evs = .needMore ∨ recvHead true evs = .failed := by
  cases hr : recvHead true evs with
  | needMore => left; rfl
  | failed => right; rfl
  | complete st hs body =>
    obtain ⟨pre, mid, r, h1, _⟩ := h2_body_exact evs st hs body hr
    subst h1
    simp [hasEnded] at hne

/-- the code is the `resetFails = true` reader (both facts regenerated from the source) -/
theorem recv_is_strict : recv = recvHead true := by
  funext evs
  simp [recv, Gen.h2ResetAlwaysFails, Gen.h2BodyEndsOnlyOnStreamEnded]

/-- what the theorem excludes: a reader that takes RST_STREAM for the end of the body returns a short body -/
example : recvHead false [.response 200 [], .data [1, 2], .reset 0] = .complete 200 [] [1, 2] := by decide
example : recvHead true [.response 200 [], .data [1, 2], .reset 0] = .failed := by decide
example : recvHead true [.data [9], .response 200 [], .data [1, 2], .response 200 [], .data [3], .ended, .data [4]] = .complete 200 [] [1, 2, 3] := by decide

end Httpcore.C02
