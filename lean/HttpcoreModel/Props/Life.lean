import HttpcoreModel.ConnLife
import HttpcoreModel.Lemmas.LifeFields
import HttpcoreModel.Pool
/-!
# Life-cycle theorems (used by C01, C09, C12)

Statements quantify over **every sequence of life-cycle operations** on a connection object, for every `keepalive_expiry`
(`none`, `some 0`, ...) and every clock reading.  The functions `Gen.h1*` / `Gen.h2*` they unfold are regenerated from the source
on every run; a change of the gate, of `_response_closed`, of `aclose` or of a status predicate re-checks all of this.
-/
namespace Httpcore.LifeProps
open Httpcore Httpcore.Life Httpcore.ConnLife Httpcore.LifeFields

/-! ## HTTP/2 -/

/-- invariant of the HTTP/2 connection object -/
structure Inv2 (g : G2) : Prop where
  starting_exact : g.c.starting = g.pending
  idle_unused : g.c.st = .idle → g.c.streams = 0 ∧ g.pending = 0
  never_new : g.c.st ≠ .new
  expiry_only_idle : g.c.st = .active → g.c.expireAt = none
  expiry_some : g.c.st = .idle → ∀ t k, g.idleSince = some t → g.c.ka = some k → g.c.expireAt = some (t + k)
  expiry_none : g.c.st = .idle → (g.idleSince = none ∨ g.c.ka = none) → g.c.expireAt = none

theorem source_releases_starting : Gen.h2StartingReleasedOnEveryPath = true := by decide

theorem inv2_init (ka : Option Nat) : Inv2 (init2 ka) := by
  constructor <;> simp [init2]

theorem inv2_step (g : G2) (op : Op2) (h : Inv2 g) : Inv2 (step2 g op) := by
  obtain ⟨h1, h2, h3, h4, h5, h6⟩ := h
  cases op
  case settle now =>
    by_cases hs : g.closing = 0
    · simp only [step2, hs, if_true]; exact ⟨h1, h2, h3, h4, h5, h6⟩
    · obtain ⟨f1, f2, f3, f4, f5, f6, f7⟩ := settle_fields g now hs
      constructor <;> grind
  all_goals simp only [step2, leave, source_releases_starting]
  all_goals (constructor <;>
    grind [ac_st, ac_exp, ac_streams, ac_starting, ac_ka, gate_st, gate_exp, gate_raised, gate_starting, gate_streams, gate_ka,
           acl_st, acl_exp, acl_streams, acl_starting, acl_ka])

theorem inv2_run (g : G2) (ops : List Op2) (h : Inv2 g) : Inv2 (run2 g ops) := by
  induction ops generalizing g with
  | nil => simpa [run2]
  | cons o os ih => exact ih _ (inv2_step g o h)

/-- **in_use_never_idle** (C12, C09, C01) - for every `keepalive_expiry` and every sequence of operations (requests arriving,
opening their streams or backing out, responses being closed - with anything else happening between the two halves of
`_response_closed` -, GOAWAY, I/O failures, closes from outside): while a request has
been accepted and its response has not been closed (it holds a stream, or is still waiting for the connection set-up / a stream
slot / a stream id), the connection does not call itself idle. -/
theorem h2_in_use_never_idle (ka : Option Nat) (ops : List Op2) :
    (run2 (init2 ka) ops).inUse → Gen.h2IsIdle (run2 (init2 ka) ops).c = false := by
  have h := inv2_run _ ops (inv2_init ka)
  intro hu
  simp only [Gen.h2IsIdle]
  unfold G2.inUse at hu
  have := h.idle_unused
  grind

/-- **in_use_never_expires** - ... and its keep-alive expiry is not running: `has_expired()` is false at every clock reading,
unless the connection has been closed already. -/
theorem h2_in_use_never_expires (ka : Option Nat) (ops : List Op2) (now : Nat) :
    (run2 (init2 ka) ops).inUse → (run2 (init2 ka) ops).c.st ≠ .closed →
    Gen.h2HasExpired (run2 (init2 ka) ops).c now = false := by
  have h := inv2_run _ ops (inv2_init ka)
  intro hu hc
  simp only [Gen.h2HasExpired]
  unfold G2.inUse at hu
  have h2 := h.idle_unused
  have h3 := h.never_new
  have h4 : (run2 (init2 ka) ops).c.expireAt = none := h.expiry_only_idle (by cases hst : (run2 (init2 ka) ops).c.st <;> grind)
  simp [h4]

theorem expiry_exact_of_inv2 (g : G2) (h : Inv2 g) (now : Nat) (hi : g.c.st = .idle) :
    Gen.h2HasExpired g.c now = (match g.idleSince, g.c.ka with | some t, some k => decide (now > t + k) | _, _ => false) := by
  have h5 := h.expiry_some hi
  have h6 := h.expiry_none hi
  simp only [Gen.h2HasExpired]
  cases hs : g.idleSince <;> cases hk : g.c.ka <;> simp_all

/-- **expiry_exact** (C09) - an idle connection that went idle at time `t` with `keepalive_expiry = k` reports itself expired
exactly when the clock is beyond `t + k`; with no `keepalive_expiry` (or before its first use) never. -/
theorem h2_expiry_exact (ka : Option Nat) (ops : List Op2) (now : Nat) :
    let g := run2 (init2 ka) ops
    g.c.st = .idle →
    Gen.h2HasExpired g.c now = (match g.idleSince, g.c.ka with | some t, some k => decide (now > t + k) | _, _ => false) :=
  fun hi => expiry_exact_of_inv2 _ (inv2_run _ ops (inv2_init ka)) now hi

/-- the keep-alive parameter never changes -/
theorem h2_ka_const (g : G2) (op : Op2) : (step2 g op).c.ka = g.c.ka := by
  cases op <;> simp only [step2, leave, Gen.h2Gate, Gen.h2AfterClose, Gen.h2Aclose] <;> grind

/-- **closed_is_final** (C01: "otherwise it is closed and never reused") - once CLOSED, no operation brings the connection back and
the gate turns every request away. -/
theorem h2_closed_is_final (g : G2) (op : Op2) (h : g.c.st = .closed) :
    (step2 g op).c.st = .closed ∧ (Gen.h2Gate { g.c with raised := false }).raised = true := by
  constructor
  · cases op <;> simp only [step2, leave, Gen.h2Gate, Gen.h2AfterClose, Gen.h2Aclose] <;> grind
  · simp [Gen.h2Gate, h]

/-- a closed, failed, used-up or GOAWAY'd connection is never offered to the pool -/
theorem h2_unusable_not_available (c : H2) (h : c.st = .closed ∨ c.connErr = true ∨ c.usedAll = true ∨ c.h2Closed = true) :
    Gen.h2IsAvailable c = false := by
  simp only [Gen.h2IsAvailable]; grind

/-- **failed_io_takes_connection_out_of_service** (C01: "otherwise it is closed and never reused") - Tie A + the translated predicate: every
handler that records a read or write failure also sets `_connection_error`, and a connection with that flag is not available, whatever
its other flags say - so no later request is assigned to it (`C09.assigned_is_available_or_new`). -/
theorem failed_io_takes_connection_out_of_service (c : H2) (h : c.connErr = true) :
    Gen.h2IoFailureMarksConnection = true ∧ Gen.h2IsAvailable c = false :=
  ⟨by decide, h2_unusable_not_available c (Or.inr (Or.inl h))⟩

/-- a response close that leaves no stream and no starting request behind arms the expiry at exactly `now + keepalive_expiry` -/
theorem h2_last_close_arms_expiry (g : G2) (now k : Nat) (hi : Inv2 g) (ha : g.c.st = .active) (h1 : g.c.streams = 0)
    (hc : g.closing ≠ 0) (hp : g.pending = 0) (ht : g.c.terminated = false) (hu : g.c.usedAll = false) (hk : g.c.ka = some k) :
    (step2 g (.settle now)).c.st = .idle ∧ (step2 g (.settle now)).c.expireAt = some (now + k) := by
  have hs := hi.starting_exact
  obtain ⟨f1, f2, _⟩ := settle_fields g now hc
  rw [f1, f2]
  simp [ha, h1, ht, hu, hk, hs ▸ hp]

/-- httpcore 1.0.7 (and this tree before the repair): with one request waiting for a stream slot, closing the only open response
made the connection IDLE with its expiry running; the waiting request then opened its stream on a connection that calls itself
idle and expires under it.  (Replayed on the implementation: finding F-C12-e.) -/
theorem idle_with_stream_107 :
    let c0 : H2 := { st := .active, ka := some 5, streams := 1 }        -- A holds the only slot, B is waiting for it
    let c1 := afterClose107 { c0 with streams := c0.streams - 1 } 100   -- A's response is closed at time 100
    let c2 := { c1 with streams := c1.streams + 1 }                     -- B opens its stream
    Gen.h2IsIdle c2 = true ∧ c2.streams = 1 ∧ Gen.h2HasExpired c2 106 = true := by
  decide

instance (g : G2) : Decidable g.inUse := by unfold G2.inUse; infer_instance

/-- non-vacuity: a run in which a request waits while another one finishes, under the current source -/
example : let g := run2 (init2 (some 5)) [.request, .opened, .request, .streamEnded, .settle 100, .opened]
    g.inUse ∧ g.c.st = .active ∧ Gen.h2HasExpired g.c 1000 = false := by decide

/-! ## HTTP/1.1 -/

structure Inv1 (g : G1) : Prop where
  idle_complete : g.c.st = .idle → g.exchangeOpen = false ∧ g.c.ourDone = false ∧ g.c.theirDone = false
  new_unused : g.c.st = .new → g.exchangeOpen = false ∧ g.accepted = 0
  active_open : g.c.st = .active → g.exchangeOpen = true
  expiry_only_idle : g.c.st = .active ∨ g.c.st = .new → g.c.expireAt = none
  open_no_expiry : g.exchangeOpen = true → g.c.expireAt = none
  idle_has_since : g.c.st = .idle → g.idleSince ≠ none
  expiry_some : g.c.st = .idle → ∀ t k, g.idleSince = some t → g.c.ka = some k → g.c.expireAt = some (t + k)
  expiry_none : g.c.st = .idle → g.c.ka = none → g.c.expireAt = none
  count_exact : g.c.count = g.accepted

theorem inv1_init (ka : Option Nat) : Inv1 (init1 ka) := by
  constructor <;> simp [init1]

theorem inv1_step (g : G1) (op : Op1) (h : Inv1 g) : Inv1 (step1 g op) := by
  obtain ⟨h1, h2, h3, h4, h4', h5, h6, h7, h8⟩ := h
  cases op
  case responseClosed now =>
    by_cases ho : g.exchangeOpen = true
    · obtain ⟨f1, f2, f3, f4, f5, f6, f7, f8, f9⟩ := rc1_fields g now ho
      constructor <;> grind
    · simp only [step1, ho]; exact ⟨h1, h2, h3, h4, h4', h5, h6, h7, h8⟩
  all_goals simp only [step1]
  all_goals (constructor <;>
    grind [g1_st, g1_exp, g1_raised, g1_count, g1_ka, g1_our, g1_their, acl1_st, acl1_exp, acl1_count, acl1_ka, acl1_our, acl1_their])

theorem inv1_run (g : G1) (ops : List Op1) (h : Inv1 g) : Inv1 (run1 g ops) := by
  induction ops generalizing g with
  | nil => simpa [run1]
  | cons o os ih => exact ih _ (inv1_step g o h)

/-- **h1_available_means_complete** (C01) - for every sequence of operations: an HTTP/1.1 connection offers itself to the pool
only when no exchange is open on it, and then h11 has started a fresh cycle. -/
theorem h1_available_means_complete (ka : Option Nat) (ops : List Op1) :
    let g := run1 (init1 ka) ops
    Gen.h1IsAvailable g.c = true → g.exchangeOpen = false ∧ g.c.ourDone = false ∧ g.c.theirDone = false := by
  intro g ha
  have h := inv1_run _ ops (inv1_init ka)
  simp only [Gen.h1IsAvailable] at ha
  exact h.idle_complete (by simpa using ha)

/-- **h1_reuse_only_after_both_done** (C01) - the only way into IDLE is a `_response_closed` that finds both h11 sides DONE;
every other end of an exchange closes the connection. -/
theorem h1_reuse_only_after_both_done (g : G1) (now : Nat) (hopen : g.exchangeOpen = true) :
    ((step1 g (.responseClosed now)).c.st = .idle ↔ (g.c.ourDone = true ∧ g.c.theirDone = true)) ∧
    (¬ (g.c.ourDone = true ∧ g.c.theirDone = true) → (step1 g (.responseClosed now)).c.st = .closed) := by
  simp only [step1, Gen.h1ResponseClosed, Gen.h1Aclose]
  grind

theorem h1_idle_only_via_response_closed (g : G1) (op : Op1) (h0 : g.c.st ≠ .idle) (h1 : (step1 g op).c.st = .idle) :
    ∃ now, op = .responseClosed now ∧ g.c.ourDone = true ∧ g.c.theirDone = true := by
  cases op
  case responseClosed now =>
    refine ⟨now, rfl, ?_⟩
    simp only [step1, Gen.h1ResponseClosed, Gen.h1Aclose] at h1
    grind
  all_goals (simp only [step1, Gen.h1Gate, Gen.h1Aclose] at h1; exfalso; grind)

theorem in_use_of_inv1 (g : G1) (h : Inv1 g) (now : Nat) (readable : Bool) (ha : g.c.st = .active) :
    Gen.h1IsIdle g.c = false ∧ Gen.h1HasExpired g.c now readable = false := by
  have h4 : g.c.expireAt = none := h.expiry_only_idle (Or.inl ha)
  simp [Gen.h1IsIdle, Gen.h1HasExpired, h4, ha]

/-- **h1_in_use_never_expires** (C09) - a connection with an exchange open (ACTIVE) is neither idle nor expired, whatever the
clock and whether or not the socket is readable (response bytes make it readable). -/
theorem h1_in_use_never_expires (ka : Option Nat) (ops : List Op1) (now : Nat) (readable : Bool) :
    let g := run1 (init1 ka) ops
    g.c.st = .active → Gen.h1IsIdle g.c = false ∧ Gen.h1HasExpired g.c now readable = false :=
  fun ha => in_use_of_inv1 _ (inv1_run _ ops (inv1_init ka)) now readable ha

theorem expiry_exact_of_inv1 (g : G1) (h : Inv1 g) (now : Nat) (readable : Bool) (hi : g.c.st = .idle) :
    ∃ t, g.idleSince = some t ∧
      Gen.h1HasExpired g.c now readable = ((match g.c.ka with | some k => decide (now > t + k) | none => false) || readable) := by
  have h5 := h.idle_has_since hi
  have h6 := h.expiry_some hi
  have h7 := h.expiry_none hi
  cases hs : g.idleSince with
  | none => exact absurd hs h5
  | some t =>
    refine ⟨t, rfl, ?_⟩
    simp only [Gen.h1HasExpired]
    cases hk : g.c.ka <;> simp_all

/-- **h1_expiry_exact** (C09) - an idle connection (idle since `t`) is expired exactly when the clock is beyond
`t + keepalive_expiry` or the server has closed it (socket readable while idle). -/
theorem h1_expiry_exact (ka : Option Nat) (ops : List Op1) (now : Nat) (readable : Bool) :
    let g := run1 (init1 ka) ops
    g.c.st = .idle →
    ∃ t, g.idleSince = some t ∧
      Gen.h1HasExpired g.c now readable = ((match g.c.ka with | some k => decide (now > t + k) | none => false) || readable) :=
  fun hi => expiry_exact_of_inv1 _ (inv1_run _ ops (inv1_init ka)) now readable hi

/-- the request counter counts exactly the requests the gate let in -/
theorem h1_count_exact (ka : Option Nat) (ops : List Op1) :
    (run1 (init1 ka) ops).c.count = (run1 (init1 ka) ops).accepted :=
  (inv1_run _ ops (inv1_init ka)).count_exact

/-- **h1_closed_is_final_partial** (C01: "otherwise it is closed and never reused").  Full statement: once CLOSED, no operation
brings the connection object back.  Proved: every operation except a `_response_closed` that finds both h11 sides DONE keeps it
CLOSED, and the gate turns every request away.  The excluded case is real at the level of the object (`h1_closed_revives`): it
needs `aclose()` from outside *during* an exchange whose response is then completed from data h11 has already buffered.  The
pool never does that to a connection it keeps (it closes only connections it has removed from its list; `pool.aclose()` empties
the list), so no pooled history reaches it. -/
theorem h1_closed_is_final_partial (g : G1) (op : Op1) (h : g.c.st = .closed)
    (hop : ∀ now, op = .responseClosed now → ¬ (g.exchangeOpen = true ∧ g.c.ourDone = true ∧ g.c.theirDone = true)) :
    (step1 g op).c.st = .closed ∧ (Gen.h1Gate { g.c with raised := false }).raised = true := by
  constructor
  · cases op
    case responseClosed now =>
      have := hop now rfl
      by_cases ho : g.exchangeOpen = true
      · obtain ⟨f1, _⟩ := rc1_fields g now ho
        grind
      · simp only [step1, ho]; simpa using h
    all_goals simp only [step1]
    all_goals grind [g1_st, acl1_st]
  · simp [Gen.h1Gate, h]

/-- witness for the excluded case: closed from outside during an exchange, then the response completes -/
theorem h1_closed_revives :
    (run1 (init1 none) [.request, .aclose, .progress true true]).c.st = .closed ∧
    (run1 (init1 none) [.request, .progress true true, .aclose, .responseClosed 7]).c.st = .idle := by decide

/-- the gate lets at most one request in between two response closes: a second request on an ACTIVE connection is refused -/
theorem h1_gate_exclusive (g : G1) (h : g.c.st = .active) : (Gen.h1Gate { g.c with raised := false }).raised = true := by
  simp [Gen.h1Gate, h]

/-- non-vacuity -/
example : let g := run1 (init1 (some 5)) [.request, .progress true true, .responseClosed 10]
    g.c.st = .idle ∧ Gen.h1HasExpired g.c 15 false = false ∧ Gen.h1HasExpired g.c 16 false = true ∧
    Gen.h1HasExpired g.c 11 true = true := by decide

/-! ## composition with the pool pass -/

open Httpcore.Pool in
/-- The pool sees a connection through its status predicates.  `view2 now id origin c` is what the pass reads from an HTTP/2
connection object at clock reading `now`. -/
def view2 (now : Nat) (id origin : Nat) (c : H2) : Pool.Conn :=
  { id := id, origin := origin, closed := Gen.h2IsClosed c, expired := Gen.h2HasExpired c now,
    idle := Gen.h2IsIdle c, available := Gen.h2IsAvailable c }

open Httpcore.Pool in
/-- what the pass reads from an HTTP/1.1 connection object at clock reading `now`, with the socket readable or not -/
def view1 (now : Nat) (readable : Bool) (id origin : Nat) (c : H1) : Pool.Conn :=
  { id := id, origin := origin, closed := Gen.h1IsClosed c, expired := Gen.h1HasExpired c now readable,
    idle := Gen.h1IsIdle c, available := Gen.h1IsAvailable c }

/-- **in-use HTTP/1.1 connection, as the pool sees it**: not expired (even though response bytes make its socket readable), not idle,
not closed, not available. -/
theorem h1_in_use_view (ka : Option Nat) (ops : List Op1) (now : Nat) (readable : Bool) (id origin : Nat) :
    let g := run1 (init1 ka) ops
    g.c.st = .active →
    (view1 now readable id origin g.c).expired = false ∧ (view1 now readable id origin g.c).idle = false ∧
    (view1 now readable id origin g.c).closed = false ∧ (view1 now readable id origin g.c).available = false := by
  intro g ha
  obtain ⟨h1, h2⟩ := h1_in_use_never_expires ka ops now readable ha
  refine ⟨h2, h1, ?_, ?_⟩
  · simp [view1, Gen.h1IsClosed, show g.c.st = .active from ha]
  · simp [view1, Gen.h1IsAvailable, show g.c.st = .active from ha]

/-- **in-use HTTP/2 connection, as the pool sees it**: not expired and not idle - so the only branches of the house-keeping loop
that could take it are "closed" (it is not) and "abandoned" (which spares every connection held by a request). -/
theorem h2_in_use_view (ka : Option Nat) (ops : List Op2) (now id origin : Nat) :
    let g := run2 (init2 ka) ops
    g.inUse → g.c.st ≠ .closed →
    (view2 now id origin g.c).expired = false ∧ (view2 now id origin g.c).idle = false ∧ (view2 now id origin g.c).closed = false := by
  intro g hu hc
  refine ⟨h2_in_use_never_expires ka ops now hu hc, h2_in_use_never_idle ka ops hu, ?_⟩
  simp [view2, Gen.h2IsClosed, hc]

/-- **h2_state_cases** (C05) - every reachable state of an HTTP/2 connection object is one of four: closed; in use (then ACTIVE);
unused and IDLE (it can be reused, expire or be evicted); or unused and still ACTIVE - the state a request leaves behind when it
goes away before it has opened its stream and nobody else is using the connection.  The pool reclaims exactly that last one
(`h2_abandoned_reclaimed`, `C05Pool.no_abandoned_after_pass`). -/
theorem h2_state_cases (ka : Option Nat) (ops : List Op2) :
    let g := run2 (init2 ka) ops
    g.c.st = .closed ∨ (g.inUse ∧ g.c.st = .active) ∨ (¬ g.inUse ∧ g.c.st = .idle) ∨ (¬ g.inUse ∧ g.c.st = .active) := by
  intro g
  have h : Inv2 g := inv2_run _ ops (inv2_init ka)
  have h2 := h.idle_unused
  have h3 := h.never_new
  unfold G2.inUse
  cases hst : g.c.st <;> grind

open Httpcore.Pool in
/-- **h2_abandoned_reclaimed** (C05) - an HTTP/2 connection that is ACTIVE with nobody on it and that no queued request holds is
closed by the house-keeping loop of the very next pass (reason: abandoned), with the clean-up rule of the current source. -/
theorem h2_abandoned_reclaimed (cfg : Cfg) (hre : cfg.reclaimAbandoned = true) (res : List Nat) (now id origin : Nat) (c : H2)
    (rest cur : List Conn) (closing : List (Conn × Reason))
    (hst : c.st = .active) (hexp : c.expireAt = none) (hres : isReserved res (view2 now id origin c) = false) :
    cleanup cfg res (view2 now id origin c :: rest) cur closing =
      cleanup cfg res rest (cur.erase (view2 now id origin c)) (closing ++ [(view2 now id origin c, .abandoned)]) := by
  have h1 : (view2 now id origin c).closed = false := by simp [view2, Gen.h2IsClosed, hst]
  have h2 : (view2 now id origin c).expired = false := by simp [view2, Gen.h2HasExpired, hexp]
  have h3 : (view2 now id origin c).idle = false := by simp [view2, Gen.h2IsIdle, hst]
  simp [cleanup, h1, h2, h3, hre, hres]

/-- in the abandoned state the expiry is not armed (so the clause `hexp` above is met in every reachable state) -/
theorem h2_active_no_expiry (ka : Option Nat) (ops : List Op2) :
    (run2 (init2 ka) ops).c.st = .active → (run2 (init2 ka) ops).c.expireAt = none :=
  (inv2_run _ ops (inv2_init ka)).expiry_only_idle

/-! ## the network stream of an HTTP/1.1 connection (C06, C17) -/

/-- out of service only with the network stream closed -/
structure InvSock (g : G1) : Prop where
  closed_closed : g.c.st = .closed → 0 < g.c.sockCloses

theorem sock_step (g : G1) (op : Op1) (h : InvSock g) :
    InvSock (step1 g op) ∧ g.c.sockCloses ≤ (step1 g op).c.sockCloses := by
  obtain ⟨h1⟩ := h
  cases op <;> simp only [step1, Gen.h1Gate, Gen.h1Aclose, Gen.h1ResponseClosed] <;>
    (refine ⟨⟨?_⟩, ?_⟩ <;> grind)

theorem sock_run (g : G1) (ops : List Op1) (h : InvSock g) :
    InvSock (run1 g ops) ∧ g.c.sockCloses ≤ (run1 g ops).c.sockCloses := by
  induction ops generalizing g with
  | nil => exact ⟨by simpa [run1] using h, by simp [run1]⟩
  | cons o os ih =>
    obtain ⟨a, b⟩ := sock_step g o h
    obtain ⟨c, d⟩ := ih _ a
    exact ⟨c, by simp only [run1, List.foldl_cons] at d ⊢; omega⟩

/-- **h1_out_of_service_means_stream_closed** (C06) - for every sequence of operations: an HTTP/1.1 connection that reports itself closed
(the pool then drops it without closing it) has had its network stream closed; with the source's `_response_closed` / `aclose` / gate
as they are now (regenerated). -/
theorem h1_out_of_service_means_stream_closed (ka : Option Nat) (ops : List Op1) :
    Gen.h1IsClosed (run1 (init1 ka) ops).c = true → 0 < (run1 (init1 ka) ops).c.sockCloses := by
  intro hc
  have h := (sock_run (init1 ka) ops ⟨by simp [init1]⟩).1
  simp only [Gen.h1IsClosed] at hc
  exact h.closed_closed (by simpa using hc)

/-- **h1_unfinished_exchange_closes_stream** (C06, C17) - an exchange that ends with either h11 side not DONE - a switched protocol
(101, CONNECT 2xx: `their_state` is SWITCHED_PROTOCOL), `Connection: close`, an error, an abandoned body - closes the network stream in
`_response_closed` itself and takes the connection out of service: it is never offered to the pool again and never left open. -/
theorem h1_unfinished_exchange_closes_stream (g : G1) (now : Nat) (hopen : g.exchangeOpen = true)
    (hnd : ¬ (g.c.ourDone = true ∧ g.c.theirDone = true)) :
    let g' := step1 g (.responseClosed now)
    g'.c.sockCloses = g.c.sockCloses + 1 ∧ g'.c.st = .closed ∧ Gen.h1IsAvailable g'.c = false ∧ Gen.h1IsIdle g'.c = false := by
  simp only [step1, Gen.h1ResponseClosed, Gen.h1Aclose, Gen.h1IsAvailable, Gen.h1IsIdle]
  grind

/-! non-vacuity: a request whose response switches protocols, closed by the caller -/
example : (run1 (init1 (some 5)) [.request, .progress true false, .responseClosed 3]).c.sockCloses = 1 ∧
    (run1 (init1 (some 5)) [.request, .progress true false, .responseClosed 3]).c.st = .closed := by decide


end Httpcore.LifeProps
