import HttpcoreModel.H1Parse
import HttpcoreModel.Lemmas.ListSplit
/-!
# C03 - the request head round trip: what httpcore writes for an accepted request parses back to exactly that request
-/
namespace Httpcore.C03P
open Httpcore Httpcore.H1 Httpcore.H1W Httpcore.H1P

theorem cutLine_append (l r : Bytes) (h : ∀ x ∈ l, x ≠ 13) : cutLine (l ++ 13 :: 10 :: r) = some (l, r) := by
  induction l with
  | nil => simp [cutLine]
  | cons b bs ih =>
    have hb : b ≠ 13 := h b (by simp)
    have := ih (fun x hx => h x (by simp [hx]))
    simp [cutLine, hb, this]

theorem cutLinesAux_lines (ls : List Bytes) (rest : Bytes) (fuel : Nat) (hf : ls.length < fuel)
    (hne : ∀ l ∈ ls, l ≠ []) (hcr : ∀ l ∈ ls, ∀ x ∈ l, x ≠ 13) :
    cutLinesAux fuel ((ls.map (· ++ [13, 10])).flatten ++ 13 :: 10 :: rest) = some (ls, rest) := by
  induction ls generalizing fuel with
  | nil =>
    cases fuel with
    | zero => omega
    | succ f => simp [cutLinesAux, cutLine]
  | cons l ls ih =>
    cases fuel with
    | zero => omega
    | succ f =>
      have h1 : cutLine (l ++ 13 :: 10 :: ((ls.map (· ++ [13, 10])).flatten ++ 13 :: 10 :: rest))
          = some (l, (ls.map (· ++ [13, 10])).flatten ++ 13 :: 10 :: rest) :=
        cutLine_append l _ (hcr l (by simp))
      have hl : l ≠ [] := hne l (by simp)
      have := ih f (by simp at hf; omega) (fun x hx => hne x (by simp [hx])) (fun x hx => hcr x (by simp [hx]))
      simp only [List.map_cons, List.flatten_cons, List.append_assoc, List.cons_append, List.nil_append, cutLinesAux]
      rw [h1]
      simp [hl, this]

theorem flatten_length_ge (ls : List Bytes) : ls.length ≤ ((ls.map (· ++ [13, 10])).flatten).length := by
  induction ls with
  | nil => simp
  | cons l ls ih => simp only [List.map_cons, List.flatten_cons, List.length_append, List.length_cons]; omega

theorem cutLines_lines (ls : List Bytes) (rest : Bytes)
    (hne : ∀ l ∈ ls, l ≠ []) (hcr : ∀ l ∈ ls, ∀ x ∈ l, x ≠ 13) :
    cutLines ((ls.map (· ++ [13, 10])).flatten ++ 13 :: 10 :: rest) = some (ls, rest) := by
  unfold cutLines
  apply cutLinesAux_lines ls rest _ _ hne hcr
  have := flatten_length_ge ls
  simp only [List.length_append, List.length_cons]
  omega

theorem parseRequestLine_ok (m t : Bytes) (hm : m ≠ []) (ht : t ≠ []) (hm32 : ∀ x ∈ m, x ≠ 32) (ht32 : ∀ x ∈ t, x ≠ 32) :
    parseRequestLine (m ++ 32 :: (t ++ 32 :: ascii "HTTP/1.1")) = some (m, t) := by
  have p1 : ∀ x ∈ m, (x != 32) = true := fun x hx => by simpa using hm32 x hx
  have p2 : ∀ x ∈ t, (x != 32) = true := fun x hx => by simpa using ht32 x hx
  have p0 : ((32 : Nat) != 32) = false := by simp
  simp only [parseRequestLine]
  rw [Url.dropWhile_append_stop _ m 32 _ p1 p0, Url.takeWhile_append_stop _ m 32 _ p1 p0]
  simp only
  rw [Url.dropWhile_append_stop _ t 32 _ p2 p0, Url.takeWhile_append_stop _ t 32 _ p2 p0]
  simp [hm, ht]

theorem fieldVchar_not_ows (c : Nat) (h : isFieldVchar c = true) : isOWS c = false := by
  simp only [isFieldVchar, isReSpace, isOWS, Bool.and_eq_true, Bool.not_eq_true',
    bne_iff_ne, Bool.or_eq_false_iff, Bool.and_eq_false_iff, beq_eq_false_iff_ne, decide_eq_false_iff_not] at *
  omega

theorem token_facts (c : Nat) (h : isTokenChar c = true) : c ≠ 58 ∧ c ≠ 13 ∧ c ≠ 32 := by
  simp only [isTokenChar, Bool.or_eq_true, Bool.and_eq_true, decide_eq_true_eq, beq_iff_eq] at h
  omega

theorem stripOWS_valid (v : Bytes) (hv : validFieldValue v = true) : stripOWS (32 :: v) = v := by
  cases v with
  | nil => simp [stripOWS, List.dropWhile, isOWS]
  | cons c cs =>
    simp only [validFieldValue, Bool.and_eq_true] at hv
    obtain ⟨⟨h1, h2⟩, _⟩ := hv
    have hc : isOWS c = false := fieldVchar_not_ows c h1
    have h32 : isOWS 32 = true := by simp [isOWS]
    have e1 : (32 :: c :: cs).dropWhile isOWS = c :: cs := by simp [List.dropWhile, h32, hc]
    unfold stripOWS
    rw [e1]
    -- the last element is a field-vchar
    cases hl : (c :: cs).getLast? with
    | none => simp at hl
    | some l =>
      rw [hl] at h2
      have hlo : isOWS l = false := fieldVchar_not_ows l h2
      have hrev : (c :: cs).reverse = l :: ((c :: cs).dropLast).reverse := by
        have := List.getLast?_eq_some_iff.mp hl
        obtain ⟨ys, hys⟩ := this
        rw [hys]; simp
      rw [hrev]
      simp only [List.dropWhile, hlo]
      rw [← hrev]; simp

theorem parseHeaderLine_ok (n v : Bytes) (hn : n ≠ []) (hnt : n.all isTokenChar = true) (hv : validFieldValue v = true) :
    H1.parseHeaderLine (n ++ [58, 32] ++ v) = some (n, v) := by
  have p1 : ∀ x ∈ n, (x != 58) = true := fun x hx => by
    have := (token_facts x (List.all_eq_true.mp hnt x hx)).1; simpa using this
  have p0 : ((58 : Nat) != 58) = false := by simp
  have e : n ++ [58, 32] ++ v = n ++ 58 :: (32 :: v) := by simp
  simp only [H1.parseHeaderLine, e]
  rw [Url.dropWhile_append_stop _ n 58 _ p1 p0, Url.takeWhile_append_stop _ n 58 _ p1 p0]
  have hall : (32 :: v).all (fun c => isOWS c || isFieldVchar c) = true := by
    simp only [List.all_cons, Bool.and_eq_true]
    refine ⟨by simp [isOWS], ?_⟩
    cases v with
    | nil => simp
    | cons c cs =>
      simp only [validFieldValue, Bool.and_eq_true] at hv
      have := hv.2
      simp only [List.all_eq_true] at this ⊢
      intro x hx
      have := this x hx
      simp only [Bool.or_eq_true] at this ⊢
      exact this.symm
  simp only [hall, hnt, stripOWS_valid v hv]
  simp [hn]

/-- what `h11.Request` accepts, as far as the head's bytes are concerned -/
def WellFormed (m t : Bytes) (hs : List Header) : Prop :=
  m ≠ [] ∧ m.all isTokenChar = true ∧ t ≠ [] ∧ t.all isVchar = true ∧
  ∀ h ∈ hs, h.1 ≠ [] ∧ h.1.all isTokenChar = true ∧ validFieldValue h.2 = true

theorem optAll_headerLines (hs : List Header)
    (h : ∀ x ∈ hs, x.1 ≠ [] ∧ x.1.all isTokenChar = true ∧ validFieldValue x.2 = true) :
    optAllM H1.parseHeaderLine (hs.map fun x => x.1 ++ [58, 32] ++ x.2) = some hs := by
  induction hs with
  | nil => simp [optAllM]
  | cons x xs ih =>
    obtain ⟨a, b, c⟩ := h x (by simp)
    simp only [List.map_cons, optAllM, parseHeaderLine_ok x.1 x.2 a b c, ih (fun y hy => h y (by simp [hy]))]

theorem validFieldValue_no_cr (v : Bytes) (hv : validFieldValue v = true) : ∀ x ∈ v, x ≠ 13 := by
  cases v with
  | nil => simp
  | cons c cs =>
    simp only [validFieldValue, Bool.and_eq_true] at hv
    have := hv.2
    simp only [List.all_eq_true] at this
    intro x hx h13
    have := this x hx
    subst h13
    simp [isFieldVchar, isReSpace, isOWS] at this

/-- **C03.head_roundtrip** - for every request head that satisfies h11's own conditions (method and header names are tokens, the
target is visible ASCII, header values are field values) and every continuation `rest` of the byte stream (body, next request):
the bytes httpcore writes parse - by the request-line grammar and h11's header regex - to exactly that method, that target and
those headers (Host first, the others in the caller's order, each name and value byte for byte), and the parser stops exactly
where the head ends. -/
theorem head_roundtrip (m t : Bytes) (hs : List Header) (rest : Bytes) (hw : WellFormed m t hs) :
    parseRequestHead (writeHead m t hs ++ rest) = some ⟨m, t, hostFirst hs, rest⟩ := by
  obtain ⟨hm, hmt, ht, htv, hh⟩ := hw
  have hm13 : ∀ x ∈ m, x ≠ 13 := fun x hx => (token_facts x (List.all_eq_true.mp hmt x hx)).2.1
  have hm32 : ∀ x ∈ m, x ≠ 32 := fun x hx => (token_facts x (List.all_eq_true.mp hmt x hx)).2.2
  have htf : ∀ x ∈ t, x ≠ 13 ∧ x ≠ 32 := fun x hx => by
    have := List.all_eq_true.mp htv x hx
    simp only [isVchar, Bool.and_eq_true, decide_eq_true_eq] at this
    omega
  -- the written head, as request line + header lines + blank line
  have hhf : ∀ x ∈ hostFirst hs, x.1 ≠ [] ∧ x.1.all isTokenChar = true ∧ validFieldValue x.2 = true := by
    intro x hx
    simp only [hostFirst, List.mem_append, List.mem_filter] at hx
    rcases hx with ⟨h1, _⟩ | ⟨h1, _⟩ <;> exact hh x h1
  have eW : writeHead m t hs ++ rest =
      (m ++ 32 :: (t ++ 32 :: ascii "HTTP/1.1")) ++ 13 :: 10 ::
        ((((hostFirst hs).map fun x => x.1 ++ [58, 32] ++ x.2).map (· ++ [13, 10])).flatten ++ 13 :: 10 :: rest) := by
    have hl : headerLine = fun x => x.1 ++ 58 :: 32 :: (x.2 ++ [13, 10]) := by
      funext x; simp [headerLine, crlf]
    simp only [writeHead, writeHeaders, hostFirst, hl, crlf, List.map_append, List.flatten_append, List.map_map]
    simp [ascii, Function.comp_def]
  have hline13 : ∀ x ∈ m ++ 32 :: (t ++ 32 :: ascii "HTTP/1.1"), x ≠ 13 := by
    intro x hx
    simp only [List.mem_append, List.mem_cons] at hx
    rcases hx with h | h | h | h | h
    · exact hm13 x h
    · omega
    · exact (htf x h).1
    · omega
    · intro h13; subst h13; revert h; decide
  simp only [parseRequestHead]
  rw [eW, cutLine_append _ _ hline13]
  simp only
  rw [parseRequestLine_ok m t hm ht hm32 (fun x hx => (htf x hx).2)]
  rw [cutLines_lines]
  · simp only [optAll_headerLines _ hhf]
  · intro l hl
    simp only [List.mem_map] at hl
    obtain ⟨x, hx, rfl⟩ := hl
    have := (hhf x hx).1
    simp [this]
  · intro l hl y hy
    simp only [List.mem_map] at hl
    obtain ⟨x, hx, rfl⟩ := hl
    obtain ⟨a, b, c⟩ := hhf x hx
    simp only [List.mem_append, List.mem_cons] at hy
    rcases hy with (h | h | h | h) | h
    · exact (token_facts y (List.all_eq_true.mp b y h)).2.1
    · omega
    · omega
    · simp at h
    · exact validFieldValue_no_cr x.2 c y h

end Httpcore.C03P

namespace Httpcore.C03P
open Httpcore Httpcore.H1 Httpcore.H1W Httpcore.H1P

theorem digits_valid (v : Bytes) (hne : v ≠ []) (hd : v.all H1.isDigit = true) : validFieldValue v = true := by
  have hfv : ∀ x ∈ v, isFieldVchar x = true := by
    intro x hx
    have := List.all_eq_true.mp hd x hx
    simp only [H1.isDigit, Bool.and_eq_true, decide_eq_true_eq] at this
    simp only [isFieldVchar, isReSpace, Bool.and_eq_true, Bool.not_eq_true', bne_iff_ne, Bool.or_eq_false_iff, Bool.and_eq_false_iff,
      beq_eq_false_iff_ne, decide_eq_false_iff_not]
    omega
  cases v with
  | nil => exact absurd rfl hne
  | cons c cs =>
    simp only [validFieldValue, Bool.and_eq_true]
    refine ⟨⟨hfv c (by simp), ?_⟩, ?_⟩
    · cases hl : (c :: cs).getLast? with
      | none => rfl
      | some l => exact hfv l (List.mem_of_getLast? hl)
    · simp only [List.all_eq_true, Bool.or_eq_true]
      intro x hx; exact Or.inl (hfv x hx)

/-- every row `normalize_and_validate` lets through (and possibly rewrites) has a token name and a field value -/
theorem normalizeReq_wf (seen : Option Bytes) (sawTE : Bool) (hs0 hs : List Header)
    (h : normalizeReq seen sawTE hs0 = some hs) :
    ∀ x ∈ hs, x.1 ≠ [] ∧ x.1.all isTokenChar = true ∧ validFieldValue x.2 = true := by
  induction hs0 generalizing seen sawTE hs with
  | nil => simp [normalizeReq] at h; subst h; simp
  | cons nv rest ih =>
    obtain ⟨n, v⟩ := nv
    simp only [normalizeReq] at h
    split at h
    · cases h
    · rename_i hg
      simp only [Bool.or_eq_true, Bool.not_eq_true', not_or, Bool.not_eq_false, Bool.and_eq_true, bne_iff_ne, ne_eq] at hg
      obtain ⟨⟨hn1, hn2⟩, hvv⟩ := hg
      split at h
      · -- content-length
        split at h
        · rename_i one _
          split at h
          · rename_i hone
            simp only [Bool.and_eq_true, bne_iff_ne, ne_eq] at hone
            split at h
            · simp only [Option.map_eq_some_iff] at h
              obtain ⟨tl, htl, rfl⟩ := h
              intro x hx
              simp only [List.mem_cons] at hx
              rcases hx with rfl | hx
              · exact ⟨hn1, hn2, digits_valid one hone.1 hone.2⟩
              · exact ih _ _ _ htl x hx
            · split at h
              · exact ih _ _ _ h
              · cases h
          · cases h
        · cases h
      · split at h
        · -- transfer-encoding
          split at h
          · cases h
          · split at h
            · rename_i hch
              simp only [Option.map_eq_some_iff] at h
              obtain ⟨tl, htl, rfl⟩ := h
              intro x hx
              simp only [List.mem_cons] at hx
              rcases hx with rfl | hx
              · refine ⟨hn1, hn2, ?_⟩
                show validFieldValue (lower v) = true
                rw [hch]; decide
              · exact ih _ _ _ htl x hx
            · cases h
        · simp only [Option.map_eq_some_iff] at h
          obtain ⟨tl, htl, rfl⟩ := h
          intro x hx
          simp only [List.mem_cons] at hx
          rcases hx with rfl | hx
          · exact ⟨hn1, hn2, hvv⟩
          · exact ih _ _ _ htl x hx

theorem h11Request_wellformed (r : Req) (hs : List Header) (h : h11Request r = some hs) : WellFormed r.method r.target hs := by
  simp only [h11Request] at h
  split at h
  · cases h
  · rename_i hs' hn
    split at h
    · cases h
    · split at h
      · cases h
      · rename_i hm
        split at h
        · cases h
        · rename_i ht
          cases h
          simp only [Bool.not_eq_true', Bool.not_eq_false, Bool.and_eq_true, bne_iff_ne, ne_eq] at hm ht
          exact ⟨hm.1, hm.2, ht.1, ht.2, normalizeReq_wf _ _ _ _ hn⟩

/-- **C03.accepted_head_roundtrip** - the round trip for exactly the requests h11 accepts: if `h11.Request(method, target, headers)`
succeeds with the normalised header list `hs`, the bytes httpcore then writes parse back to that method, target and header list
(Host first), whatever follows them on the wire.  (What h11 *rewrites* - a Content-Length list collapsed to one value, the
Transfer-Encoding value lower-cased: findings F-C03-b - is visible in `hs`.) -/
theorem accepted_head_roundtrip (r : Req) (hs : List Header) (rest : Bytes) (h : h11Request r = some hs) :
    parseRequestHead (writeHead r.method r.target hs ++ rest) = some ⟨r.method, r.target, hostFirst hs, rest⟩ :=
  head_roundtrip _ _ _ _ (h11Request_wellformed r hs h)

/-- non-vacuity: a concrete accepted request with Host not in first position -/
example : h11Request { method := ascii "POST", target := ascii "/a?b", headers := [(ascii "X-A", ascii "1 2"), (ascii "Host", ascii "h"),
    (ascii "Content-Length", ascii "3")] } = some [(ascii "X-A", ascii "1 2"), (ascii "Host", ascii "h"), (ascii "Content-Length", ascii "3")] := by
  decide

end Httpcore.C03P
