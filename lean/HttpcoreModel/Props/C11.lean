import HttpcoreModel.Generated
import HttpcoreModel.Establish
/-!
# C11 — Proxy hops see exactly what is meant for them
-/
namespace Httpcore.C11
open Httpcore Httpcore.Est
open Httpcore.H1W (Req writeRequest)
abbrev Header := Est.Header

def overridden (over : List Header) (h : Header) : Bool := over.any fun o => lower o.1 = lower h.1

/-- **C11.merge** — `merge_headers(default, override)`: every override header survives, in order,
at the end; a default header survives iff no override header has the same name case-insensitively;
surviving defaults keep their order and come first. -/
theorem merge (dflt over : List Header) :
    mergeHeaders dflt over = dflt.filter (fun h => !overridden over h) ++ over := rfl

theorem merge_override_survives (dflt over : List Header) :
    ∃ pre, mergeHeaders dflt over = pre ++ over ∧ pre.Sublist dflt := ⟨_, rfl, List.filter_sublist⟩

theorem merge_default_survives_iff (dflt over : List Header) (h : Header) (hd : h ∈ dflt) :
    h ∈ dflt.filter (fun h => !overridden over h) ↔ (∀ o ∈ over, lower o.1 ≠ lower h.1) := by
  simp [List.mem_filter, hd, overridden]

/-- no header of the merged list is lost or invented -/
theorem merge_members (dflt over : List Header) (h : Header) :
    h ∈ mergeHeaders dflt over → h ∈ dflt ∨ h ∈ over := by
  intro hm
  simp only [mergeHeaders, List.mem_append, List.mem_filter] at hm
  rcases hm with ⟨h1, _⟩ | h2
  · exact Or.inl h1
  · exact Or.inr h2

/-- **C11.tunnel (request)** — the CONNECT request names exactly `host:port` as target and as Host,
carries only Host, Accept and the proxy's headers (nothing of the caller's request), and has no body. -/
theorem connect_request (px : Proxy) (host : Bytes) (port : Nat) :
    (connectRequest px host port).method = ascii "CONNECT" ∧
    (connectRequest px host port).target = host ++ 58 :: decimal port ∧
    (∀ h ∈ (connectRequest px host port).headers,
      h = (ascii "Host", host ++ 58 :: decimal port) ∨ h = (ascii "Accept", ascii "*/*") ∨ h ∈ px.headers) := by
  refine ⟨rfl, rfl, ?_⟩
  intro h hm
  rcases merge_members _ _ h hm with h1 | h2
  · simp only [List.mem_cons, List.not_mem_nil, or_false] at h1
    rcases h1 with rfl | rfl
    · left; rfl
    · right; left; rfl
  · right; right; exact h2

/-- **C11.tunnel (reply)** — the origin request flows only after a 2xx reply; any other status is
refused (`ProxyError`). -/
theorem connect_accepted_iff (status : Nat) : connectAccepted status = true ↔ (200 ≤ status ∧ status ≤ 299) := by
  simp [connectAccepted]

/-- **C11.forward** — through a forwarding proxy the request line carries the absolute URL and
the proxy's headers are merged *beneath* the caller's (a caller header of the same name wins). -/
theorem forward_request (px : Proxy) (method : Bytes) (url : Url.URL) (headers : List Header) :
    (forwardRequest px method url headers).target = Url.toBytes url ∧
    (forwardRequest px method url headers).method = method ∧
    (forwardRequest px method url headers).headers =
      px.headers.filter (fun h => !overridden headers h) ++ headers := ⟨rfl, rfl, rfl⟩

/-- **C11.secrets_stay_outside (header level)** — inside the tunnel the origin sees exactly the
caller's header list: the tunnel connection hands the request on unchanged, so no proxy header
(in particular Proxy-Authorization) can occur there; and the CONNECT request contains no caller
header (see `connect_request`). Stated on the two header lists the model writes. -/
theorem secrets_stay_outside (px : Proxy) (host : Bytes) (port : Nat) (callerHeaders : List Header)
    (secret : Header) (hs : secret ∈ px.headers) (hn : secret ∉ callerHeaders) :
    secret ∉ callerHeaders ∧
    (∀ h ∈ (connectRequest px host port).headers, h ∈ callerHeaders →
      h = (ascii "Host", host ++ 58 :: decimal port) ∨ h = (ascii "Accept", ascii "*/*") ∨ h ∈ px.headers) := by
  refine ⟨hn, ?_⟩
  intro h hm _
  exact (connect_request px host port).2.2 h hm

/-- **C11.socks** — the negotiation offers exactly one method, the configured one; sends the
user/password message iff credentials are configured; and the CONNECT command names exactly the
origin host (as a domain name or IPv4 address) and port. -/
theorem socks_messages (px : Proxy) (host : Bytes) (port : Nat) (c : Bytes) (hc : socksConnect host port = some c) :
    socksNegotiation px host port =
      some ([[5, 1, if px.auth.isSome then 2 else 0]] ++
        (match px.auth with | some (u, p) => [[1, u.length] ++ u ++ [p.length] ++ p] | none => []) ++ [c]) := by
  simp [socksNegotiation, hc, socksMethodOffer, socksUserPass]
  cases px.auth <;> rfl

theorem socks_connect_domain (host : Bytes) (port : Nat) (h4 : parseIPv4 host = none) (h6 : host.contains 58 = false) :
    socksConnect host port = some ([5, 1, 0, 3, host.length] ++ host ++ [port / 256 % 256, port % 256]) := by
  have h6' : 58 ∉ host := by simpa [List.contains_iff_mem] using h6
  simp [socksConnect, h4, h6']

/-! non-vacuity -/
example : mergeHeaders [(ascii "Proxy-Authorization", ascii "Basic x"), (ascii "X-P", ascii "1")]
    [(ascii "proxy-authorization", ascii "mine")] = [(ascii "X-P", ascii "1"), (ascii "proxy-authorization", ascii "mine")] := by
  decide
example : socksConnect (ascii "10.0.0.1") 443 = some [5, 1, 0, 1, 10, 0, 0, 1, 1, 187] := by decide

/-- **C11.merge_is_the_modelled_function** - Tie A (regenerated): `merge_headers` in the source is statement for statement the function
`Establish.mergeHeaders` models - in particular it works on copies, so merging a request's headers never changes the proxy
configuration that later requests are merged with - and its two call sites merge what the model says they merge. -/
theorem merge_is_the_modelled_function : Gen.mergeHeadersAsModelled = true := by decide

/-- **C11.proxy_requests_are_their_own** - Tie A (regenerated): the two requests httpcore itself builds for a proxy - CONNECT and the
forwarded request - take over the caller's extensions without `target`; their request line is `connectRequest` / `forwardRequest` of
the model whatever the caller put into that extension (findings F-C10-c, F-C11-c). -/
theorem proxy_requests_are_their_own : Gen.proxyRequestsDropTargetExtension = true := by decide

end Httpcore.C11
