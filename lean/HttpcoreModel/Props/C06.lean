import HttpcoreModel.Props.C05
import HttpcoreModel.Props.Life
/-!
# C06 — Every network stream that is opened is eventually closed (theorems about `Sys`)
-/
namespace Httpcore.C06
open Httpcore.Sys Httpcore.C05

/-- **C06.owned** — in every reachable state every open stream is owned: by a connection that is in
the pool (connecting, new, active or idle), or by a connection that a still-running caller is in the
middle of closing. For every interleaving, fault position and scope-cancellation point. -/
theorem owned_reachable (as : List Action) (h : ∀ a ∈ as, Admissible a) (c : Nat)
    (ho : ((run current init as).conns c).streamOpen = true) :
    let s := run current init as
    ((s.conns c).inPool = true ∧ ((s.conns c).status = .connecting ∨ (s.conns c).status = .new ∨
        (s.conns c).status = .active ∨ (s.conns c).status = .idle)) ∨
    ((s.conns c).status = .closed ∧ ∃ t, (s.tasks t).pc = .closing c) := by
  intro s
  have inv := inv_reachable as h
  rcases inv.stream_owned c ho with h1 | ⟨h1, h2⟩
  · exact Or.inl h1
  · right
    obtain ⟨t, ht⟩ := Option.ne_none_iff_exists'.mp h2
    exact ⟨h1, t, inv.st_closed c t h1 ht⟩

/-- when no caller is running, every open stream belongs to an idle pooled connection -/
theorem quiescent_streams (as : List Action) (h : ∀ a ∈ as, Admissible a)
    (hq : ∀ t, ¬ live ((run current init as).tasks t).pc) (c : Nat)
    (ho : ((run current init as).conns c).streamOpen = true) :
    let s := run current init as
    (s.conns c).inPool = true ∧ (s.conns c).status = .idle ∧ (s.conns c).owner = none := by
  intro s
  have inv := inv_reachable as h
  rcases owned_reachable as h c ho with ⟨hp, hs⟩ | ⟨_, t, ht⟩
  · rcases C05.quiescent_capacity as h hq c hp with h1 | h1 | h1
    · exact ⟨hp, h1, (inv.st_idle c h1).1⟩
    · rcases hs with h2 | h2 | h2 | h2 <;> rw [h1] at h2 <;> cases h2
    · rcases hs with h2 | h2 | h2 | h2 <;> rw [h1] at h2 <;> cases h2
  · exact absurd (by rw [ht]; simp [live]) (hq t)

/-- **C06.pool_close** — after the pool is closed with no caller running, no stream it opened
remains open: closing pooled connection `c` closes its stream, and every open stream belongs to a
pooled connection that `pool.aclose()` closes. -/
theorem pool_close_closes_all (as : List Action) (h : ∀ a ∈ as, Admissible a)
    (hq : ∀ t, ¬ live ((run current init as).tasks t).pc) (c : Nat) :
    ((step current (run current init as) (.poolClose c)).conns c).streamOpen = false := by
  by_cases ho : ((run current init as).conns c).streamOpen = true
  · obtain ⟨h1, h2, h3⟩ := quiescent_streams as h hq c ho
    simp [step, h1, h2, h3, setConn]
  · simp only [step]
    split
    · simp [setConn]
    · simpa using ho

/-- closing one pooled connection never opens or re-opens another stream -/
theorem pool_close_monotone (s : State) (c d : Nat) (hd : (s.conns d).streamOpen = false) :
    ((step current s (.poolClose c)).conns d).streamOpen = false := by
  simp only [step]
  split
  · by_cases hcd : d = c
    · subst hcd; simp [setConn]
    · simp [setConn, upd, hcd, hd]
  · exact hd

/-- the excluded behaviour is real when the TCP stream is not closed on a cancelled TLS handshake
(1.0.7, finding F-C06-e, repaired): the stream stays open although its connection has been dropped -/
theorem leak_counterexample_107 :
    let s := run { closeNew := true, closeOnTlsCancel := false } init
      [.arrive 0, .assignNew 0 0, .start 0, .tcp 0 .ok, .tls 0 .cancel, .finish 0, .dropClosed 0]
    (s.conns 0).streamOpen = true ∧ (s.conns 0).inPool = false ∧ (s.tasks 0).pc = .done := by
  decide

end Httpcore.C06
