import HttpcoreModel.Backoff
/-!
# C20 — Connection retries are bounded and limited to establishment

Property theorems only.  Every theorem quantifies over *all* retry counts `n`, all outcome
scripts `outs` (any length) and both values of `tls`.
-/
namespace Httpcore.C20
open Httpcore Httpcore.Backoff

/-- the extracted tuple of retryable classes is exactly {ConnectError, ConnectTimeout} -/
theorem retryable_exact (e : Exc) :
    e ∈ Gen.retryable ↔ (e = .ConnectError ∨ e = .ConnectTimeout) := by
  cases e <;> decide

/-- the extracted give-up test is `retries_left ≤ 0` -/
theorem giveUp_exact (left : Int) : Gen.giveUp left = true ↔ left ≤ 0 := by
  simp [Gen.giveUp]

private theorem connects_bound (tls : Bool) (ph : Phase) (left : Int) (i : Nat)
    (outs : List (Option Exc)) :
    nConnect (run tls ph left i outs).1
      ≤ (if ph = .tcp then 1 else 0) + left.toNat := by
  induction outs generalizing ph left i with
  | nil => simp [run, nConnect, nNet, nSleep]
  | cons o rest ih =>
    cases o with
    | none =>
      cases ph with
      | tcp =>
        by_cases h : tls
        · have := ih .tls left i
          simp [run, h, nConnect] at this ⊢
          omega
        · simp [run, h, nConnect]
      | tls => simp [run, nConnect]
    | some e =>
      by_cases hr : e ∈ Gen.retryable
      · by_cases hg : Gen.giveUp left = true
        · cases ph <;> simp [run, hr, hg, Phase.op, nConnect]
        · have hpos : 0 < left := by
            have := mt (giveUp_exact left).mpr hg
            omega
          have := ih .tcp (left - 1) (i + 1)
          cases ph <;> simp [run, hr, hg, Phase.op, nConnect] at this ⊢ <;> omega
      · cases ph <;> simp [run, hr, Phase.op, nConnect]

/-- **C20.attempts** — with `retries = n` at most `n + 1` connection attempts are made. -/
theorem attempts (tls : Bool) (n : Nat) (outs : List (Option Exc)) :
    nConnect (connect tls n outs).1 ≤ n + 1 := by
  have := connects_bound tls .tcp (n : Int) 0 outs
  simp [connect] at this ⊢
  omega

private theorem sleeps_seq (tls : Bool) (ph : Phase) (left : Int) (i : Nat)
    (outs : List (Option Exc)) :
    ∃ k, sleepsOf (run tls ph left i outs).1 = (List.range' i k).map delayScaled := by
  induction outs generalizing ph left i with
  | nil => exact ⟨0, by simp [run, sleepsOf]⟩
  | cons o rest ih =>
    cases o with
    | none =>
      cases ph with
      | tcp =>
        by_cases h : tls
        · obtain ⟨k, hk⟩ := ih .tls left i
          exact ⟨k, by simpa [run, h, sleepsOf] using hk⟩
        · exact ⟨0, by simp [run, h, sleepsOf]⟩
      | tls => exact ⟨0, by simp [run, sleepsOf]⟩
    | some e =>
      by_cases hr : e ∈ Gen.retryable
      · by_cases hg : Gen.giveUp left = true
        · exact ⟨0, by cases ph <;> simp [run, hr, hg, Phase.op, sleepsOf]⟩
        · obtain ⟨k, hk⟩ := ih .tcp (left - 1) (i + 1)
          refine ⟨k + 1, ?_⟩
          cases ph <;> simp [run, hr, hg, Phase.op, sleepsOf, hk, List.range'_succ]
      · exact ⟨0, by cases ph <;> simp [run, hr, Phase.op, sleepsOf]⟩

/-- **C20.delays (a)** — the pauses are, in order, the first `k` values of the back-off
sequence, for some `k`. -/
theorem delays_sequence (tls : Bool) (n : Nat) (outs : List (Option Exc)) :
    ∃ k, sleepsOf (connect tls n outs).1 = (List.range k).map delayScaled := by
  obtain ⟨k, hk⟩ := sleeps_seq tls .tcp (n : Int) 0 outs
  exact ⟨k, by simpa [connect, List.range_eq_range'] using hk⟩

/-- **C20.delays (b)** — the back-off sequence is 0, 0.5, 1, 2, 4, … seconds
(`delayScaled` is in half seconds because `backoffDen = 2`). -/
theorem delays_values :
    Gen.backoffDen = 2 ∧ delayScaled 0 = 0 ∧ ∀ j, delayScaled (j + 1) = 2 ^ j := by
  refine ⟨rfl, rfl, ?_⟩
  intro j
  simp [delayScaled, Gen.backoffNum, Gen.backoffBase]

private theorem pauses_between (tls : Bool) (ph : Phase) (left : Int) (i : Nat)
    (outs : List (Option Exc)) (h : (run tls ph left i outs).2 ≠ .starved) :
    nConnect (run tls ph left i outs).1 + (if ph = .tcp then 0 else 1)
      = nSleep (run tls ph left i outs).1 + 1 := by
  induction outs generalizing ph left i with
  | nil => simp [run] at h
  | cons o rest ih =>
    cases o with
    | none =>
      cases ph with
      | tcp =>
        by_cases ht : tls
        · have := ih .tls left i (by simpa [run, ht] using h)
          simp [run, ht, nConnect, nSleep] at this ⊢
          omega
        · simp [run, ht, nConnect, nSleep]
      | tls => simp [run, nConnect, nSleep]
    | some e =>
      by_cases hr : e ∈ Gen.retryable
      · by_cases hg : Gen.giveUp left = true
        · cases ph <;> simp [run, hr, hg, Phase.op, nConnect, nSleep]
        · have := ih .tcp (left - 1) (i + 1) (by cases ph <;> simpa [run, hr, hg] using h)
          cases ph <;> simp [run, hr, hg, Phase.op, nConnect, nSleep] at this ⊢ <;> omega
      · cases ph <;> simp [run, hr, Phase.op, nConnect, nSleep]

/-- **C20.delays (c)** — exactly one pause between consecutive attempts and none after the
last: whenever the loop ends (connected or raised), #pauses = #attempts − 1. -/
theorem one_pause_between_attempts (tls : Bool) (n : Nat) (outs : List (Option Exc))
    (h : (connect tls n outs).2 ≠ .starved) :
    nConnect (connect tls n outs).1
      = nSleep (connect tls n outs).1 + 1 := by
  have := pauses_between tls .tcp (n : Int) 0 outs h
  simpa [connect] using this

private theorem net_ops_consume (tls : Bool) (ph : Phase) (left : Int) (i : Nat)
    (outs : List (Option Exc)) :
    nNet (run tls ph left i outs).1 ≤ outs.length := by
  induction outs generalizing ph left i with
  | nil => simp [run, nConnect, nNet, nSleep]
  | cons o rest ih =>
    cases o with
    | none =>
      cases ph with
      | tcp =>
        by_cases ht : tls
        · have := ih .tls left i
          simp [run, ht, nNet] at this ⊢; omega
        · simp [run, ht, nNet]
      | tls => simp [run, nNet]
    | some e =>
      by_cases hr : e ∈ Gen.retryable
      · by_cases hg : Gen.giveUp left = true
        · cases ph <;> simp [run, hr, hg, Phase.op, nNet]
        · have := ih .tcp (left - 1) (i + 1)
          cases ph <;> simp [run, hr, hg, Phase.op, nNet] at this ⊢ <;> omega
      · cases ph <;> simp [run, hr, Phase.op, nNet]

private theorem raised_is_last (tls : Bool) (ph : Phase) (left : Int) (i : Nat)
    (outs : List (Option Exc)) (e : Exc) (h : (run tls ph left i outs).2 = .raised e) :
    outs[nNet (run tls ph left i outs).1 - 1]? = some (some e) ∧
    0 < nNet (run tls ph left i outs).1 := by
  induction outs generalizing ph left i with
  | nil => simp [run] at h
  | cons o rest ih =>
    cases o with
    | none =>
      cases ph with
      | tcp =>
        by_cases ht : tls
        · have := ih .tls left i (by simpa [run, ht] using h)
          obtain ⟨h1, h2⟩ := this
          simp [run, ht, nNet] at h1 h2 ⊢
          rw [List.getElem?_cons]
          split
          · omega
          · simpa using h1
        · simp [run, ht] at h
      | tls => simp [run] at h
    | some e' =>
      by_cases hr : e' ∈ Gen.retryable
      · by_cases hg : Gen.giveUp left = true
        · cases ph <;> simp [run, hr, hg, Phase.op, nNet] at h ⊢ <;> exact h
        · have := ih .tcp (left - 1) (i + 1) (by cases ph <;> simpa [run, hr, hg] using h)
          obtain ⟨h1, h2⟩ := this
          cases ph <;> simp [run, hr, hg, Phase.op, nNet] at h1 h2 ⊢ <;>
            (rw [List.getElem?_cons]; split; · omega
             · simpa using h1)
      · cases ph <;> simp [run, hr, Phase.op, nNet] at h ⊢ <;> exact h

/-- **C20.last_error** — the error that `_connect` raises is the outcome of the *last* network
operation it performed (so, if all attempts fail, the last attempt's error). -/
theorem last_error (tls : Bool) (n : Nat) (outs : List (Option Exc)) (e : Exc)
    (h : (connect tls n outs).2 = .raised e) :
    outs[nNet (connect tls n outs).1 - 1]? = some (some e) :=
  (raised_is_last tls .tcp (n : Int) 0 outs e h).1

private theorem stops_at_nonretryable (tls : Bool) (ph : Phase) (left : Int) (i : Nat)
    (outs : List (Option Exc)) (k : Nat) (e : Exc) (hk : outs[k]? = some (some e))
    (hn : e ∉ Gen.retryable) :
    nNet (run tls ph left i outs).1 ≤ k + 1 ∧
    (nNet (run tls ph left i outs).1 = k + 1 →
      (run tls ph left i outs).2 = .raised e) := by
  induction outs generalizing ph left i k with
  | nil => simp at hk
  | cons o rest ih =>
    cases k with
    | zero =>
      simp at hk
      subst hk
      cases ph <;> simp [run, hn, Phase.op, nNet]
    | succ k =>
      simp at hk
      cases o with
      | none =>
        cases ph with
        | tcp =>
          by_cases ht : tls
          · have := ih .tls left i k hk
            simp [run, ht, nNet] at this ⊢
            exact this
          · simp [run, ht, nNet]
        | tls => simp [run, nNet]
      | some e' =>
        by_cases hr : e' ∈ Gen.retryable
        · by_cases hg : Gen.giveUp left = true
          · cases ph <;> simp [run, hr, hg, Phase.op, nNet]
          · have := ih .tcp (left - 1) (i + 1) k hk
            cases ph <;> simp [run, hr, hg, Phase.op, nNet] at this ⊢ <;> exact this
        · cases ph <;> simp [run, hr, Phase.op, nNet]

/-- **C20.only_connect_errors** — a failure whose class is not ConnectError / ConnectTimeout
(at the TCP or the TLS stage) is never followed by another network operation, and if it is
reached it is the error raised. -/
theorem only_connect_errors (tls : Bool) (n : Nat) (outs : List (Option Exc)) (k : Nat)
    (e : Exc) (hk : outs[k]? = some (some e))
    (hn : ¬ (e = .ConnectError ∨ e = .ConnectTimeout)) :
    nNet (connect tls n outs).1 ≤ k + 1 ∧
    (nNet (connect tls n outs).1 = k + 1 →
      (connect tls n outs).2 = .raised e) :=
  stops_at_nonretryable tls .tcp (n : Int) 0 outs k e hk (by rw [retryable_exact]; exact hn)

private theorem connected_is_last (tls : Bool) (ph : Phase) (left : Int) (i : Nat)
    (outs : List (Option Exc)) (h : (run tls ph left i outs).2 = .connected) :
    ∃ pre, (run tls ph left i outs).1 = pre ++ [if tls then .startTls else .connect] ∨
      (ph = .tls ∧ (run tls ph left i outs).1 = pre ++ [.startTls]) := by
  induction outs generalizing ph left i with
  | nil => simp [run] at h
  | cons o rest ih =>
    cases o with
    | none =>
      cases ph with
      | tcp =>
        by_cases ht : tls
        · subst ht
          obtain ⟨pre, hp⟩ := ih .tls left i (by simpa [run] using h)
          refine ⟨.connect :: pre, Or.inl ?_⟩
          rcases hp with h1 | ⟨_, h1⟩ <;> simp [run, h1]
        · exact ⟨[], Or.inl (by simp [run, ht])⟩
      | tls => exact ⟨[], Or.inr ⟨rfl, by simp [run]⟩⟩
    | some e' =>
      by_cases hr : e' ∈ Gen.retryable
      · by_cases hg : Gen.giveUp left = true
        · cases ph <;> simp [run, hr, hg] at h
        · obtain ⟨pre, hp⟩ := ih .tcp (left - 1) (i + 1) (by cases ph <;> simpa [run, hr, hg] using h)
          rcases hp with h1 | ⟨h0, _⟩
          · refine ⟨ph.op :: .sleep (delayScaled i) :: pre, Or.inl ?_⟩
            cases ph <;> simp [run, hr, hg, h1]
          · cases h0
      · cases ph <;> simp [run, hr] at h

/-- **C20.never_after_established** (loop half) — once an attempt succeeds the loop stops at
once: the successful operation (TLS start when TLS is needed, the connect otherwise) is the last
one in the trace; nothing is retried afterwards. -/
theorem success_ends_loop (tls : Bool) (n : Nat) (outs : List (Option Exc))
    (h : (connect tls n outs).2 = .connected) :
    ∃ pre, (connect tls n outs).1 = pre ++ [if tls then .startTls else .connect] := by
  obtain ⟨pre, hp⟩ := connected_is_last tls .tcp (n : Int) 0 outs h
  rcases hp with h1 | ⟨h0, _⟩
  · exact ⟨pre, h1⟩
  · cases h0

/-- **C20.all_fail** — if every operation fails with a connect error the loop makes exactly
`n + 1` attempts and raises (non-vacuity of `attempts`: the bound is reached). -/
theorem all_fail_exact (n : Nat) :
    (connect false n (List.replicate (n + 1) (some .ConnectError))).2 = .raised .ConnectError ∧
    nConnect (connect false n (List.replicate (n + 1) (some .ConnectError))).1
      = n + 1 := by
  have key : ∀ (m : Nat) (i : Nat),
      (run false .tcp (m : Int) i (List.replicate (m + 1) (some .ConnectError))).2
        = .raised .ConnectError ∧
      nConnect (run false .tcp (m : Int) i (List.replicate (m + 1) (some .ConnectError))).1
        = m + 1 := by
    intro m
    induction m with
    | zero =>
      intro i
      have hr : Exc.ConnectError ∈ Gen.retryable := by decide
      simp [run, hr, Gen.giveUp, Phase.op, nConnect]
    | succ m ih =>
      intro i
      have hr : Exc.ConnectError ∈ Gen.retryable := by decide
      have hg : Gen.giveUp ((m + 1 : Nat) : Int) = false := by
        simp [Gen.giveUp]
      have := ih (i + 1)
      rw [List.replicate_succ]
      simp only [run, hr, hg, if_true]
      have hcast : (((m + 1 : Nat) : Int) - 1) = (m : Int) := by omega
      rw [hcast]
      simp [Phase.op, nConnect, this]
  exact key n 0

/-! non-vacuity: concrete scripts that meet the hypotheses -/
example : (connect true 2 [some .ConnectError, none, some .ConnectTimeout, none, none]).2
    = .connected := by decide
example : (connect true 2 [some .ConnectError, none, some .ConnectTimeout, none, none]).1
    = [.connect, .sleep 0, .connect, .startTls, .sleep 1, .connect, .startTls] := by decide
example : (connect false 1 [some .ConnectError, some .ReadError, none]).2 = .raised .ReadError := by
  decide

end Httpcore.C20
