import HttpcoreModel.Props.C02Head
/-!
# C02 - the head round trip for every legal *spelling* of the header lines

`name ":" OWS value OWS`: any run of spaces / tabs (also none) after the colon and after the value.  The canonical spelling of
`Props/C02Head.lean` is the special case `pre = " "`, `post = ""`.
-/
namespace Httpcore.C02H
open Httpcore Httpcore.H1

structure WireHeader where
  name : Bytes
  value : Bytes
  pre : Bytes      -- white space between the colon and the value
  post : Bytes     -- white space after the value
  deriving DecidableEq, Repr

def WireHeader.line (w : WireHeader) : Bytes := w.name ++ 58 :: (w.pre ++ w.value ++ w.post)
def WireHeader.header (w : WireHeader) : Header := (w.name, w.value)

def renderHeadSpelled (a b d1 d2 d3 : Nat) (reason : Bytes) (ws : List WireHeader) : Bytes :=
  (((statusLine a b d1 d2 d3 reason) :: ws.map (·.line)).map (· ++ [13, 10])).flatten ++ [13, 10]

theorem stripOWS_pad (pre v post : Bytes) (hpre : ∀ x ∈ pre, isOWS x = true) (hpost : ∀ x ∈ post, isOWS x = true)
    (hv : H1W.validFieldValue v = true) : stripOWS (pre ++ v ++ post) = v := by
  cases v with
  | nil =>
    have hall : ∀ x ∈ pre ++ post, isOWS x = true := by
      intro x hx; simp only [List.mem_append] at hx; rcases hx with h | h; exact hpre x h; exact hpost x h
    show ((List.dropWhile isOWS (pre ++ [] ++ post)).reverse.dropWhile isOWS).reverse = []
    simp only [List.append_nil]
    rw [Url.dropWhile_all _ _ hall]; rfl
  | cons c cs =>
    simp only [H1W.validFieldValue, Bool.and_eq_true] at hv
    obtain ⟨⟨h1, h2⟩, _⟩ := hv
    have hc : isOWS c = false := C03P.fieldVchar_not_ows c h1
    have e1 : (pre ++ (c :: cs) ++ post).dropWhile isOWS = c :: (cs ++ post) := by
      have : pre ++ (c :: cs) ++ post = pre ++ c :: (cs ++ post) := by simp
      rw [this, Url.dropWhile_append_stop _ pre c _ hpre hc]
    unfold stripOWS
    rw [e1]
    cases hl : (c :: cs).getLast? with
    | none => simp at hl
    | some l =>
      rw [hl] at h2
      have hlo : isOWS l = false := C03P.fieldVchar_not_ows l h2
      obtain ⟨ys, hys⟩ := List.getLast?_eq_some_iff.mp hl
      have hrev : (c :: (cs ++ post)).reverse = post.reverse ++ l :: ys.reverse := by
        have : c :: (cs ++ post) = (c :: cs) ++ post := by simp
        rw [this, hys]; simp
      rw [hrev, Url.dropWhile_append_stop _ post.reverse l _ (fun x hx => hpost x (by simpa using hx)) hlo]
      have : (l :: ys.reverse).reverse = c :: cs := by rw [hys]; simp
      exact this

theorem parseHeaderLine_spelled (w : WireHeader) (hn : w.name ≠ []) (hnt : w.name.all isTokenChar = true)
    (hv : H1W.validFieldValue w.value = true) (hpre : ∀ x ∈ w.pre, isOWS x = true) (hpost : ∀ x ∈ w.post, isOWS x = true) :
    parseHeaderLine w.line = some (w.name, w.value) := by
  have p1 : ∀ x ∈ w.name, (x != 58) = true := fun x hx => by
    have := (C03P.token_facts x (List.all_eq_true.mp hnt x hx)).1; simpa using this
  have p0 : ((58 : Nat) != 58) = false := by simp
  simp only [parseHeaderLine, WireHeader.line, Url.dropWhile_append_stop _ w.name 58 _ p1 p0, Url.takeWhile_append_stop _ w.name 58 _ p1 p0]
  have hall : (w.pre ++ w.value ++ w.post).all (fun c => isOWS c || isFieldVchar c) = true := by
    simp only [List.all_eq_true, List.mem_append, Bool.or_eq_true]
    intro x hx
    rcases hx with (h | h) | h
    · exact Or.inl (hpre x h)
    · cases hvv : w.value with
      | nil => rw [hvv] at h; simp at h
      | cons c cs =>
        rw [hvv] at hv h
        simp only [H1W.validFieldValue, Bool.and_eq_true] at hv
        have := List.all_eq_true.mp hv.2 x h
        simp only [Bool.or_eq_true] at this
        exact this.symm
    · exact Or.inl (hpost x h)
  simp only [hall, hnt, stripOWS_pad w.pre w.value w.post hpre hpost hv]
  simp [hn]

/-- the head step of the reader for an arbitrary list of header *lines* that are known to parse -/
theorem parse_head_lines (a b d1 d2 d3 : Nat) (reason : Bytes) (lines : List Bytes) (hs : List Header)
    (hv : isDigit a = true ∧ isDigit b = true) (hc : isDigit d1 = true ∧ isDigit d2 = true ∧ isDigit d3 = true ∧ 100 ≤ digitsVal [d1, d2, d3])
    (hr : reason.all (fun c => isOWS c || isFieldVchar c) = true)
    (h10 : ∀ l ∈ lines, ∀ x ∈ l, x ≠ 10) (hst : ∀ l ∈ lines, ∃ c t, l = c :: t ∧ isOWS c = false)
    (hopt : optAllM parseHeaderLine lines = some hs) (hn : normalize none false hs = some hs) :
    parseHead ((((statusLine a b d1 d2 d3 reason) :: lines).map (· ++ [13, 10])).flatten ++ [13, 10]) =
      .ok (decide (digitsVal [d1, d2, d3] < 200))
        { version := [a, 46, b], status := digitsVal [d1, d2, d3], reason := reason, headers := hs } := by
  obtain ⟨ha, hb⟩ := hv
  obtain ⟨h1, h2, h3, h100⟩ := hc
  have hsl10 : ∀ x ∈ statusLine a b d1 d2 d3 reason, x ≠ 10 := by
    intro x hx
    simp only [statusLine, List.mem_append, List.mem_cons] at hx
    have := digit_ne a ha; have := digit_ne b hb; have := digit_ne d1 h1; have := digit_ne d2 h2; have := digit_ne d3 h3
    rcases hx with (h | h | h | h | h | h | h | h | h | h | h | h | h | h) | h
    all_goals first
      | omega
      | (simp at h)
      | exact (ows_or_vchar_ne x (List.all_eq_true.mp hr x h)).1
  have hlines10 : ∀ l ∈ statusLine a b d1 d2 d3 reason :: lines, ∀ x ∈ l, x ≠ 10 := by
    intro l hl
    simp only [List.mem_cons] at hl
    rcases hl with rfl | hl
    · exact hsl10
    · exact h10 l hl
  simp only [parseHead]
  rw [splitLines_raw _ hlines10]
  have hlen : ((statusLine a b d1 d2 d3 reason :: lines) ++ [[], []]).length - 2 = (statusLine a b d1 d2 d3 reason :: lines).length := by
    simp
  rw [hlen, List.take_left']
  · simp only
    have hps : parseStatusLine (statusLine a b d1 d2 d3 reason) = some ([a, 46, b], digitsVal [d1, d2, d3], reason) := by
      simp only [statusLine, List.cons_append, List.nil_append, parseStatusLine, ha, hb, h1, h2, h3, Bool.and_self, if_true]
      cases reason with
      | nil => rfl
      | cons c cs => simp [hr]
    rw [hps]
    simp only
    have hof : obsFold none lines = some lines := by
      have := obsFold_plain none lines hst
      simpa using this
    rw [hof]
    simp only
    rw [hopt]
    simp only [hn]
    have : ¬ digitsVal [d1, d2, d3] < 100 := by omega
    simp [this]
  · rfl

/-- well-formed head with spelled header lines -/
structure WellFormedSpelled (a b d1 d2 d3 : Nat) (reason : Bytes) (ws : List WireHeader) : Prop where
  base : WellFormed a b d1 d2 d3 reason (ws.map (·.header))
  pads : ∀ w ∈ ws, (∀ x ∈ w.pre, isOWS x = true) ∧ (∀ x ∈ w.post, isOWS x = true)

theorem spelled_line_facts (w : WireHeader) (hn : w.name ≠ []) (hnt : w.name.all isTokenChar = true)
    (hv : H1W.validFieldValue w.value = true) (hpre : ∀ x ∈ w.pre, isOWS x = true) (hpost : ∀ x ∈ w.post, isOWS x = true) :
    (∀ x ∈ w.line, x ≠ 10) ∧ (∃ c t, w.line = c :: t ∧ isOWS c = false ∧ c ≠ 10 ∧ c ≠ 13) := by
  have hcan := headerLine_facts (w.name, w.value) hn hnt hv
  have hows : ∀ x, isOWS x = true → x ≠ 10 := by
    intro x hx; simp only [isOWS, Bool.or_eq_true, beq_iff_eq] at hx; omega
  refine ⟨?_, ?_⟩
  · intro x hx
    simp only [WireHeader.line, List.mem_append, List.mem_cons] at hx
    rcases hx with h | h | (h | h) | h
    · exact hcan.1 x (by simp [headerLine, h])
    · omega
    · exact hows x (hpre x h)
    · exact hcan.1 x (by simp [headerLine, h])
    · exact hows x (hpost x h)
  · obtain ⟨c, t, e, hc, h33⟩ := hcan.2.2
    cases hh : w.name with
    | nil => exact absurd hh hn
    | cons c' t' =>
      have : c' = c := by
        simp only [headerLine, hh, List.cons_append] at e
        exact (List.cons.inj e).1
      subst this
      exact ⟨c', t' ++ 58 :: (w.pre ++ w.value ++ w.post), by simp [WireHeader.line, hh], hc, by omega, by omega⟩

/-- **C02.parse_head_roundtrip_spelled** - the head round trip for every legal spelling of the header lines: whatever runs of spaces and
tabs the server puts after the colon and after the value of each header, the reader reports the header list with names and values
byte for byte and no white space added or lost; and it finds the end of the head exactly. -/
theorem parse_head_roundtrip_spelled (a b d1 d2 d3 : Nat) (reason : Bytes) (ws : List WireHeader) (body : Bytes)
    (hw : WellFormedSpelled a b d1 d2 d3 reason ws) :
    parseHead (renderHeadSpelled a b d1 d2 d3 reason ws) =
      .ok (decide (digitsVal [d1, d2, d3] < 200))
        { version := [a, 46, b], status := digitsVal [d1, d2, d3], reason := reason, headers := ws.map (·.header) } ∧
    findBlank (renderHeadSpelled a b d1 d2 d3 reason ws ++ body) = some (renderHeadSpelled a b d1 d2 d3 reason ws, body) := by
  obtain ⟨⟨hv, hc, hr, hh, hn⟩, hp⟩ := hw
  have hfacts : ∀ w ∈ ws, (∀ x ∈ w.line, x ≠ 10) ∧ (∃ c t, w.line = c :: t ∧ isOWS c = false ∧ c ≠ 10 ∧ c ≠ 13) := by
    intro w hw
    obtain ⟨x1, x2, x3⟩ := hh w.header (List.mem_map.mpr ⟨w, hw, rfl⟩)
    exact spelled_line_facts w x1 x2 x3 (hp w hw).1 (hp w hw).2
  have hopt : optAllM parseHeaderLine (ws.map (·.line)) = some (ws.map (·.header)) := by
    clear hn
    induction ws with
    | nil => simp [optAllM]
    | cons w ws ih =>
      obtain ⟨x1, x2, x3⟩ := hh w.header (by simp)
      have hl := parseHeaderLine_spelled w x1 x2 x3 (hp w (by simp)).1 (hp w (by simp)).2
      have := ih (fun x hx => hp x (by simp [hx]))
        (fun h hh' => hh h (by simp only [List.map_cons, List.mem_cons]; exact Or.inr hh'))
        (fun x hx => hfacts x (by simp [hx]))
      simp only [List.map_cons, optAllM, hl, this, WireHeader.header]
  refine ⟨?_, ?_⟩
  · unfold renderHeadSpelled
    apply parse_head_lines a b d1 d2 d3 reason _ _ hv hc hr
    · intro l hl; obtain ⟨w, hw, rfl⟩ := List.mem_map.mp hl; exact (hfacts w hw).1
    · intro l hl; obtain ⟨w, hw, rfl⟩ := List.mem_map.mp hl
      obtain ⟨c, t, e, h1, _⟩ := (hfacts w hw).2; exact ⟨c, t, e, h1⟩
    · exact hopt
    · exact hn
  · unfold renderHeadSpelled
    apply findBlank_lines
    · intro m hm
      simp only [List.mem_cons, List.mem_map] at hm
      rcases hm with rfl | ⟨w, hw, rfl⟩
      · obtain ⟨ha, hb⟩ := hv
        obtain ⟨h1, h2, h3, _⟩ := hc
        intro x hx
        simp only [statusLine, List.mem_append, List.mem_cons] at hx
        have := digit_ne a ha; have := digit_ne b hb; have := digit_ne d1 h1; have := digit_ne d2 h2; have := digit_ne d3 h3
        rcases hx with (h | h | h | h | h | h | h | h | h | h | h | h | h | h) | h
        all_goals first
          | omega
          | (simp at h)
          | exact (ows_or_vchar_ne x (List.all_eq_true.mp hr x h)).1
      · exact (hfacts w hw).1
    · intro m hm
      obtain ⟨w, hw, rfl⟩ := List.mem_map.mp hm
      obtain ⟨c, t, e, _, h2, h3⟩ := (hfacts w hw).2
      exact ⟨c, t, e, h2, h3⟩

/-- non-vacuity: no space after the colon, tabs and spaces around the value -/
example : (WireHeader.mk (ascii "X-A") (ascii "b c") [] [9, 32]).line = ascii "X-A:b c\t " ∧
    parseHeaderLine (ascii "X-A:b c\t ") = some (ascii "X-A", ascii "b c") := by decide

end Httpcore.C02H
