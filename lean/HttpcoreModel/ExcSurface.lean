import HttpcoreModel.Generated
/-!
Which exception class reaches the caller for each (stage, cause) pair, following the handlers and
`map_exceptions` sites of `httpcore/_async/*.py`.  Hand-written; validated by the fuzz-style
correspondence of C15.
-/
namespace Httpcore.Surf
open Httpcore

inductive Stage
  | poolEntry          -- scheme test in `pool.handle_async_request`
  | poolWait
  | connect            -- connect_tcp / connect_unix_socket
  | tls                -- start_tls (direct, tunnel, SOCKS)
  | proxyConnect       -- the CONNECT exchange of a tunnel
  | socksNegotiation
  | h1Send | h1RecvHead | h1RecvBody
  | h2Send | h2RecvHead | h2RecvBody
  deriving DecidableEq, Repr

def Stage.all : List Stage :=
  [.poolEntry, .poolWait, .connect, .tls, .proxyConnect, .socksNegotiation, .h1Send, .h1RecvHead, .h1RecvBody,
   .h2Send, .h2RecvHead, .h2RecvBody]

inductive Cause
  | backend (e : Exc)   -- the back end raised `e` (one of the classes its exception map produces)
  | peerMalformed       -- bytes the protocol library rejects
  | peerClosed          -- end of stream before the message is complete
  | callerInvalid       -- a request the protocol library refuses to encode
  | proxyRefused        -- non-2xx CONNECT reply / SOCKS refusal
  | poolDeadline
  | unsupportedScheme
  deriving DecidableEq, Repr

/-- what a back end's exception maps can produce for the operation of a stage -/
def backendClasses : Stage → List Exc
  | .connect => [.ConnectError, .ConnectTimeout]
  | .tls => [.ConnectError, .ConnectTimeout]
  | .proxyConnect => [.ReadError, .ReadTimeout, .WriteError, .WriteTimeout]
  | .socksNegotiation => [.ReadError, .ReadTimeout, .WriteError, .WriteTimeout]
  | .h1Send => [.WriteError, .WriteTimeout]
  | .h2Send => [.WriteError, .WriteTimeout, .ReadError, .ReadTimeout]   -- flow-control waits read
  | .h1RecvHead => [.ReadError, .ReadTimeout]
  | .h1RecvBody => [.ReadError, .ReadTimeout]
  | .h2RecvHead => [.ReadError, .ReadTimeout, .WriteError, .WriteTimeout]  -- acknowledgements write
  | .h2RecvBody => [.ReadError, .ReadTimeout, .WriteError, .WriteTimeout]
  | _ => []

/-- the class that reaches the caller; `none` = the pair cannot occur / is absorbed -/
def surface : Stage → Cause → Option Exc
  | .poolEntry, .unsupportedScheme => some .UnsupportedProtocol
  | .poolWait, .poolDeadline => some .PoolTimeout
  | .h1Send, .backend .WriteError => none       -- absorbed: http11.py goes on to read the response
  | .proxyConnect, .backend .WriteError => none -- the CONNECT exchange is an HTTP/1.1 exchange: likewise
  | s, .backend e => if e ∈ backendClasses s then some e else none
  | .h1Send, .callerInvalid => some .LocalProtocolError
  | .h2Send, .callerInvalid => some .LocalProtocolError
  | .proxyConnect, .callerInvalid => some .LocalProtocolError    -- invalid proxy headers
  | .h1RecvHead, .peerMalformed => some .RemoteProtocolError
  | .h1RecvBody, .peerMalformed => some .RemoteProtocolError
  | .h2RecvHead, .peerMalformed => some .RemoteProtocolError
  | .h2RecvBody, .peerMalformed => some .RemoteProtocolError
  | .h2Send, .peerMalformed => some .RemoteProtocolError         -- read while waiting for flow control
  | .proxyConnect, .peerMalformed => some .RemoteProtocolError
  | .socksNegotiation, .peerMalformed => some .RemoteProtocolError
  | .h1RecvHead, .peerClosed => some .RemoteProtocolError
  | .h1RecvBody, .peerClosed => some .RemoteProtocolError
  | .h2RecvHead, .peerClosed => some .RemoteProtocolError
  | .h2RecvBody, .peerClosed => some .RemoteProtocolError
  | .h2Send, .peerClosed => some .RemoteProtocolError
  | .proxyConnect, .peerClosed => some .RemoteProtocolError
  | .socksNegotiation, .peerClosed => some .RemoteProtocolError
  | .proxyConnect, .proxyRefused => some .ProxyError
  | .socksNegotiation, .proxyRefused => some .ProxyError
  | _, _ => none

/-- the documented exception classes (docs/exceptions.md) -/
def documented (e : Exc) : Bool :=
  match e with
  | .other => false
  | .cancelled => false
  | .ConnectionNotAvailable => false      -- internal: absorbed by the pool's retry loop
  | _ => true

end Httpcore.Surf
