import HttpcoreModel.H1Write
/-!
A server's view of the request head that `H1Write.writeHead` produces: request line, header lines (h11's own `header_field`
regex, `H1.parseHeaderLine`), blank line.  Used only to state the round trip "what was written parses back to what was meant".
-/
namespace Httpcore.H1P
open Httpcore Httpcore.H1 Httpcore.H1W

/-- cut at the first CRLF: (line without it, rest) -/
def cutLine : Bytes → Option (Bytes × Bytes)
  | [] => none
  | b :: rest =>
    if b = 13 ∧ rest.head? = some 10 then some ([], rest.tail)
    else (cutLine rest).map (fun p => (b :: p.1, p.2))

/-- lines up to the first empty line -/
def cutLinesAux : Nat → Bytes → Option (List Bytes × Bytes)
  | 0, _ => none
  | fuel + 1, b =>
    match cutLine b with
    | none => none
    | some (l, r) => if l = [] then some ([], r) else (cutLinesAux fuel r).map (fun p => (l :: p.1, p.2))

def cutLines (b : Bytes) : Option (List Bytes × Bytes) := cutLinesAux (b.length + 1) b

/-- `METHOD SP target SP HTTP/1.1` -/
def parseRequestLine (l : Bytes) : Option (Bytes × Bytes) :=
  let m := l.takeWhile (· != 32)
  match l.dropWhile (· != 32) with
  | [] => none
  | _ :: r1 =>
    let t := r1.takeWhile (· != 32)
    match r1.dropWhile (· != 32) with
    | [] => none
    | _ :: v => if v = ascii "HTTP/1.1" && m != [] && t != [] then some (m, t) else none

structure PHead where
  method : Bytes
  target : Bytes
  headers : List Header
  rest : Bytes
  deriving DecidableEq, Repr

def parseRequestHead (b : Bytes) : Option PHead :=
  match cutLine b with
  | none => none
  | some (l, r) =>
    match parseRequestLine l, cutLines r with
    | some (m, t), some (lines, rest) =>
      match optAllM H1.parseHeaderLine lines with
      | some hs => some ⟨m, t, hs, rest⟩
      | none => none
    | _, _ => none

/-- the order in which `write_headers` emits the header lines -/
def hostFirst (hs : List Header) : List Header := hs.filter isHost ++ hs.filter (fun h => !isHost h)

end Httpcore.H1P
